package main

import (
	"fmt"
	"go/ast"
	"go/importer"
	"go/parser"
	"go/token"
	"go/types"
	"golang.org/x/tools/go/cfg"
	"strings"
)

// G16: rules added after the third wave of seeded changes.

// g16Load — loading discipline. (a) every population of a loader.Config goes through FromArgs(paths, true): the constant
// true makes _test.go files (whose derive calls need functions too) part of every load, first pass and reload alike;
// Import / ImportWithTests / CreateFromFiles or FromArgs(…, false) would drop or change the file set between passes.
// (b) every loader.Config literal sets AllowErrors: true. (c) nothing in the driver reads a package's Errors list: with
// AllowErrors the loader tolerates type and syntax errors — derived.gen.go may be a truncated remnant — and a run must not
// fail because of them.
func g16Load(c *Ctx) {
	r, rep := c.Repo, c.Rep
	// while the previous output is hidden from go/build (G22, remnant clause) no error of the loaded packages can stem from it:
	// looking for *syntax* errors (go/scanner) in the Errors list then only concerns the user's own files
	remnantHarmless := staleHidden(c).invalid
	n := 0
	for _, b := range r.bodies() {
		if b.Pkg.Name != "derive" && b.Pkg.Name != "main" {
			continue
		}
		info := b.Pkg.TypesInfo
		isLoaderConfig := func(t types.Type) bool {
			if t == nil {
				return false
			}
			if p, ok := t.(*types.Pointer); ok {
				t = p.Elem()
			}
			nt, ok := t.(*types.Named)
			return ok && nt.Obj().Name() == "Config" && nt.Obj().Pkg() != nil && strings.HasSuffix(nt.Obj().Pkg().Path(), "go/loader")
		}
		inspectOwn(b.Block, func(m ast.Node) bool {
			switch x := m.(type) {
			case *ast.CompositeLit:
				if isLoaderConfig(info.TypeOf(x)) {
					n++
					ok := false
					for _, e := range x.Elts {
						if kv, isKV := e.(*ast.KeyValueExpr); isKV && exprStr(kv.Key) == "AllowErrors" {
							if tv, has := info.Types[kv.Value]; has && tv.Value != nil && tv.Value.String() == "true" {
								ok = true
							}
						}
					}
					if ok {
						rep.pass("G16")
					} else {
						rep.fail(Finding{Rule: "G16", Key: "G16|load|" + b.Name + "|allow-errors", Where: []string{r.pos(x.Pos())},
							Msg: b.Name + " builds a loader.Config without AllowErrors: true: a stale or truncated derived.gen.go (or any type error the missing functions cause) makes loading fail instead of being regenerated"})
					}
				}
			case *ast.CallExpr:
				sel, ok := x.Fun.(*ast.SelectorExpr)
				if !ok || !isLoaderConfig(info.TypeOf(sel.X)) {
					return true
				}
				switch sel.Sel.Name {
				case "FromArgs":
					n++
					good := false
					if len(x.Args) == 2 {
						if tv, has := info.Types[x.Args[1]]; has && tv.Value != nil && tv.Value.String() == "true" {
							good = true
						}
					}
					if good {
						rep.pass("G16")
						rep.sample(map[string]string{"rule": "G16 loads include test files", "site": r.pos(x.Pos())})
					} else {
						rep.fail(Finding{Rule: "G16", Key: "G16|load|" + b.Name + "|tests-excluded", Where: []string{r.pos(x.Pos())},
							Msg: b.Name + " calls FromArgs without the constant true for xtest: derive calls in _test.go files are not discovered and their functions are missing from derived.gen.go"})
					}
				case "Import", "ImportWithTests", "CreateFromFiles", "CreateFromFilenames":
					n++
					rep.fail(Finding{Rule: "G16", Key: "G16|load|" + b.Name + "|" + sel.Sel.Name, Where: []string{r.pos(x.Pos())},
						Msg: fmt.Sprintf("%s populates a loader.Config with %s instead of FromArgs(paths, true): this load sees another set of files than the first pass (no _test.go files, or no external test package), so functions called only from test files disappear when the package is reloaded between passes", b.Name, sel.Sel.Name)})
				}
			case *ast.SelectorExpr:
				if x.Sel.Name != "Errors" {
					return true
				}
				if sel, ok := info.Selections[x]; ok && sel.Kind() == types.FieldVal {
					if v, ok := sel.Obj().(*types.Var); ok && v.Pkg() != nil && strings.HasSuffix(v.Pkg().Path(), "go/loader") {
						n++
						if remnantHarmless && syntaxOnlyUse(b, info, x) {
							rep.pass("G16")
							rep.sample(map[string]string{"rule": "G16 Errors list examined for syntax errors only, previous output hidden", "site": r.pos(x.Pos())})
							return true
						}
						rep.fail(Finding{Rule: "G16", Key: "G16|load|" + b.Name + "|reads-errors", Where: []string{r.pos(x.Pos())},
							Msg: b.Name + " reads the Errors list of a loaded package: the loader is configured to tolerate errors because derived.gen.go may be stale, truncated or missing functions; acting on them makes a run fail (or change behaviour) because of the previous output"})
					}
				}
			}
			return true
		})
	}
	rep.analysed("loader_config_sites", n)
	if n < 2 {
		rep.fail(Finding{Rule: "G16", Key: "G16|load|floor", Kind: "undecided", Msg: "fewer loader.Config sites than confirmed by hand (a literal and a FromArgs call)"})
	}
}

// posOrderMatcher: a comparison (<, <=, >, >=) or subtraction of two token.Pos values.
func posOrderMatcher(info *types.Info, n ast.Node) (string, bool) {
	be, ok := n.(*ast.BinaryExpr)
	if !ok {
		return "", false
	}
	switch be.Op {
	case token.LSS, token.LEQ, token.GTR, token.GEQ, token.SUB:
	default:
		return "", false
	}
	isPos := func(e ast.Expr) bool {
		t := info.TypeOf(e)
		if t == nil {
			return false
		}
		nt, ok := t.(*types.Named)
		return ok && nt.Obj().Name() == "Pos" && nt.Obj().Pkg() != nil && nt.Obj().Pkg().Path() == "go/token"
	}
	if isPos(be.X) && isPos(be.Y) {
		return exprStr(be), true
	}
	return "", false
}

// g16PosOrder — token.Pos values of different files are ordered by the order in which the loader's concurrent parser
// goroutines registered the files with the FileSet: ordering work by Pos makes the output depend on the parse schedule.
// The generator never compares positions today (expected count 0); a built-in positive example keeps the matcher honest.
func g16PosOrder(r *Repo, rep *Report) {
	// self-test
	src := "package p\nimport \"go/ast\"\nfunc less(a, b ast.Node) bool { return a.Pos() < b.Pos() }\n"
	fset := token.NewFileSet()
	f, err := parser.ParseFile(fset, "selftest.go", src, 0)
	hit := false
	if err == nil {
		info := &types.Info{Types: map[ast.Expr]types.TypeAndValue{}, Uses: map[*ast.Ident]types.Object{}, Defs: map[*ast.Ident]types.Object{}, Selections: map[*ast.SelectorExpr]*types.Selection{}}
		conf := types.Config{Importer: importer.ForCompiler(fset, "source", nil), Error: func(error) {}}
		conf.Check("p", fset, []*ast.File{f}, info)
		ast.Inspect(f, func(n ast.Node) bool {
			if _, ok := posOrderMatcher(info, n); ok {
				hit = true
			}
			return true
		})
	}
	if !hit {
		rep.fail(Finding{Rule: "G16", Key: "G16|pos-order|selftest", Kind: "undecided", Msg: "the position-order matcher does not fire on its built-in positive example"})
		return
	}
	rep.pass("G16")
	n := 0
	for _, b := range r.bodies() {
		info := b.Pkg.TypesInfo
		inspectOwn(b.Block, func(m ast.Node) bool {
			if what, ok := posOrderMatcher(info, m); ok {
				n++
				rep.fail(Finding{Rule: "G16", Key: "G16|pos-order|" + b.Name, Where: []string{r.pos(m.Pos())},
					Msg: fmt.Sprintf("%s orders by source position (%s): across files token.Pos follows the order in which the loader's parser goroutines registered the files, which changes from run to run, so the order of generated functions and the numbering of helper names would too", b.Name, what)})
			}
			return true
		})
	}
	rep.analysed("position_comparisons", n)
	if n == 0 {
		rep.pass("G16")
	}
}

// g16VisitAssertion — newCall asserts expr.Fun.(*ast.Ident) without checking. The finder may therefore record a call (append
// it to undefined / derived) only after that very assertion succeeded on call.Fun itself — not on a transformed expression
// such as ast.Unparen(call.Fun), which accepts calls newCall then panics on.
func g16VisitAssertion(r *Repo, rep *Report) {
	visit := r.lookup("derive.(*finder).Visit")
	nc := r.lookup("derive.newCall")
	if visit == nil || nc == nil {
		rep.fail(Finding{Rule: "G16", Key: "G16|visit-assert|missing", Kind: "undecided", Msg: "(*finder).Visit / newCall not found"})
		return
	}
	// does newCall (still) assert unchecked?
	unchecked := false
	ast.Inspect(nc.Decl.Body, func(n ast.Node) bool {
		if ta, ok := n.(*ast.TypeAssertExpr); ok && ta.Type != nil && exprStr(ta.Type) == "*ast.Ident" {
			unchecked = true
		}
		return true
	})
	if !unchecked {
		rep.pass("G16") // nothing to protect
		return
	}
	info := visit.Pkg.TypesInfo
	// the call variable: defined by `call, ok := node.(*ast.CallExpr)`
	var callObj types.Object
	var asserted []string
	ast.Inspect(visit.Decl.Body, func(n ast.Node) bool {
		as, ok := n.(*ast.AssignStmt)
		if !ok || len(as.Rhs) != 1 {
			return true
		}
		ta, ok := as.Rhs[0].(*ast.TypeAssertExpr)
		if !ok || ta.Type == nil {
			return true
		}
		switch exprStr(ta.Type) {
		case "*ast.CallExpr":
			if id, ok := as.Lhs[0].(*ast.Ident); ok {
				callObj = info.Defs[id]
			}
		case "*ast.Ident":
			asserted = append(asserted, exprStr(ta.X))
		}
		return true
	})
	if callObj == nil {
		rep.fail(Finding{Rule: "G16", Key: "G16|visit-assert|shape", Kind: "undecided", Where: []string{r.pos(visit.Decl.Pos())}, Msg: "(*finder).Visit: the call variable cannot be identified"})
		return
	}
	want := callObj.Name() + ".Fun"
	good := false
	for _, a := range asserted {
		if a == want {
			good = true
		}
	}
	if good && len(asserted) == 1 {
		rep.pass("G16")
		rep.sample(map[string]string{"rule": "G16 recorded calls have an identifier callee", "asserted": want})
		return
	}
	rep.fail(Finding{Rule: "G16", Key: "G16|visit-assert|mismatch", Where: []string{r.pos(visit.Decl.Pos())},
		Msg: fmt.Sprintf("(*finder).Visit accepts calls after asserting %v to be an identifier, while newCall asserts expr.Fun.(*ast.Ident) unchecked: a call whose callee only becomes an identifier after the transformation (e.g. a parenthesised `(deriveEqual)(a, b)`) is recorded and then makes goderive panic", asserted)})
}

// g16Eq — eq(this, that) decides whether two argument type lists are the same registration. It is evaluated abstractly on
// lists of different lengths: the answer must be false whatever the element types are (a registered list that is a proper
// prefix of the new one is a different function: deriveEqual(a) vs deriveEqual(a, b)); and on equal lengths with all
// pairwise tests true it must be true.
func g16Eq(c *Ctx) {
	fi := c.Repo.lookup("derive.eq")
	if fi == nil {
		c.Rep.fail(Finding{Rule: "G16", Key: "G16|eq|missing", Kind: "undecided", Msg: "derive.eq not found"})
		return
	}
	mk := func(prefix string, n int) *VList {
		l := &VList{}
		for i := 0; i < n; i++ {
			l.Elems = append(l.Elems, &VOpaque{Origin: fmt.Sprintf("%s[%d]", prefix, i)})
		}
		return l
	}
	type tc struct{ a, b int }
	for _, t := range []tc{{1, 2}, {2, 1}, {0, 1}, {1, 0}, {2, 3}, {1, 1}, {2, 2}} {
		or := &Oracle{}
		for n := 0; n < 64; n++ {
			or.pos = 0
			in := &Interp{repo: c.Repo, plugin: "derive", decls: c.GDecls, or: or, memo: map[string]int{}, shape: 2, arities: []int{2, 1, 0},
				preds: map[string]Value{}, stack: map[*ast.FuncDecl]int{}, imports: map[string]int{}, importUse: map[string]bool{}, holes: map[string]*Hole{}, g9mode: true}
			var res Value
			msg := ""
			func() {
				defer func() {
					if e := recover(); e != nil {
						if a, ok := e.(abort); ok {
							if a.kind == "panic" {
								msg = "panics: " + a.msg
							} else {
								msg = a.kind + ": " + a.msg
							}
							return
						}
						msg = fmt.Sprint(e)
					}
				}()
				res = in.callFunc(&VFunc{Decl: fi.Decl, Pkg: fi.Pkg}, []Value{mk("this", t.a), mk("that", t.b)}, token.NoPos)
			}()
			allTrue := true
			for _, d := range in.decisions {
				if d.Choice != 0 {
					allTrue = false
				}
			}
			b, isBool := res.(VBool)
			switch {
			case msg != "" && strings.HasPrefix(msg, "panics"):
				c.Rep.fail(Finding{Rule: "G16", Key: "G16|eq|panic", Where: []string{c.Repo.pos(fi.Decl.Pos())},
					Msg: fmt.Sprintf("eq on lists of %d and %d types %s", t.a, t.b, msg)})
			case msg != "" || !isBool || !b.Known:
				c.Rep.fail(Finding{Rule: "G16", Key: "G16|eq|undecided", Kind: "undecided", Where: []string{c.Repo.pos(fi.Decl.Pos())}, Msg: "eq cannot be evaluated abstractly: " + msg})
			case t.a != t.b && b.V:
				c.Rep.fail(Finding{Rule: "G16", Key: "G16|eq|length", Where: []string{c.Repo.pos(fi.Decl.Pos())},
					Msg: fmt.Sprintf("eq answers true for argument lists of different lengths (%d and %d types): a name registered for (A) is taken to be the same function as a call with (A, B) — the conflict is not reported, and with -autoname nothing is renamed, so the package does not type-check", t.a, t.b)})
			case t.a == t.b && allTrue && !b.V:
				c.Rep.fail(Finding{Rule: "G16", Key: "G16|eq|reflexive", Where: []string{c.Repo.pos(fi.Decl.Pos())},
					Msg: fmt.Sprintf("eq answers false for two lists of %d types although every pairwise test succeeded", t.a)})
			default:
				c.Rep.pass("G16")
			}
			if !or.next() {
				break
			}
		}
	}
}

// g16RewriteGuard — newPackage prints a user file back from its syntax tree. A file with syntax errors is only partly
// represented by its tree (the loader tolerates errors), so printing it would silently drop the user's code. Every
// opening of a user file for writing must therefore come after a successful complete parse of that very path:
// `if _, err := parser.ParseFile(fset, <path>, nil, …); err != nil { return … }` as an earlier statement of an enclosing
// block.
func g16RewriteGuard(r *Repo, rep *Report) {
	fi := r.lookup("derive.newPackage")
	if fi == nil {
		rep.fail(Finding{Rule: "G16", Key: "G16|rewrite-guard|missing", Kind: "undecided", Msg: "newPackage not found"})
		return
	}
	info := fi.Pkg.TypesInfo
	par := parents(fi.Decl)
	g := newGraph(fi.Decl.Body, mayReturnFn(info))
	n := 0
	ast.Inspect(fi.Decl.Body, func(m ast.Node) bool {
		c, ok := m.(*ast.CallExpr)
		if !ok {
			return true
		}
		fn, ok := callee(info, c).(*types.Func)
		if !ok || fn.Pkg() == nil || fn.Pkg().Path() != "os" || (fn.Name() != "OpenFile" && fn.Name() != "Create" && fn.Name() != "WriteFile") || len(c.Args) == 0 {
			return true
		}
		n++
		path := exprStr(c.Args[0])
		guarded := false
		ob, _ := g.locate(c.Pos())
		// a complete parse of that very path whose failure cannot reach the opening: parser.ParseFile(fset, path, nil, …), or
		// with the bytes os.ReadFile(path) returned, and the error tested
		ast.Inspect(fi.Decl.Body, func(k ast.Node) bool {
			pc, ok := k.(*ast.CallExpr)
			if !ok || guarded || ob == nil || !isPkgFunc(callee(info, pc), "go/parser", "ParseFile") || len(pc.Args) < 3 || exprStr(pc.Args[1]) != path {
				return true
			}
			if !isNilIdent(info, pc.Args[2]) {
				// the source: a variable defined once, by os.ReadFile of the same path
				sid, ok := ast.Unparen(pc.Args[2]).(*ast.Ident)
				if !ok {
					return true
				}
				defs, fromFile := 0, false
				ast.Inspect(fi.Decl.Body, func(d ast.Node) bool {
					das, ok := d.(*ast.AssignStmt)
					if !ok {
						return true
					}
					for _, l := range das.Lhs {
						if lid, ok := l.(*ast.Ident); ok && (info.Defs[lid] == info.Uses[sid] || info.Uses[lid] == info.Uses[sid]) {
							defs++
							if len(das.Rhs) == 1 {
								if rc, ok := das.Rhs[0].(*ast.CallExpr); ok && isPkgFunc(callee(info, rc), "os", "ReadFile") && len(rc.Args) == 1 && exprStr(rc.Args[0]) == path {
									fromFile = true
								}
							}
						}
					}
					return true
				})
				if defs != 1 || !fromFile {
					return true
				}
			}
			as, ok := par[pc].(*ast.AssignStmt)
			if !ok || len(as.Rhs) != 1 || len(as.Lhs) == 0 {
				return true
			}
			eid, ok := as.Lhs[len(as.Lhs)-1].(*ast.Ident)
			if !ok {
				return true
			}
			errObj := info.Defs[eid]
			if errObj == nil {
				errObj = info.Uses[eid]
			}
			if errObj == nil {
				return true
			}
			for _, b := range g.Blocks {
				if len(b.Succs) != 2 || len(b.Nodes) == 0 {
					continue
				}
				cond, isE := b.Nodes[len(b.Nodes)-1].(ast.Expr)
				if !isE || cond.Pos() < pc.Pos() {
					continue
				}
				op, isCmp := nilCompare(info, cond, errObj)
				if !isCmp {
					continue
				}
				failed := b.Succs[0]
				if op == token.EQL {
					failed = b.Succs[1]
				}
				if g.dominates(b, ob) && failed != ob && !g.reachable([]*cfg.Block{failed}, nil)[ob] {
					guarded = true
				}
			}
			return true
		})
		if guarded {
			rep.pass("G16")
			rep.sample(map[string]string{"rule": "G16 rewrite only after a complete parse", "site": r.pos(c.Pos()), "path": path})
		} else {
			rep.fail(Finding{Rule: "G16", Key: "G16|rewrite-guard|" + fn.Name(), Where: []string{r.pos(c.Pos())},
				Msg: fmt.Sprintf("newPackage opens %s for writing without first checking that the file parses completely: with -autoname/-dedup a user file that has a syntax error is printed back from the partial syntax tree the parser recovered, and the rest of the user's code is lost", path)})
		}
		return true
	})
	rep.analysed("user_file_write_sites", n)
	if n == 0 {
		rep.fail(Finding{Rule: "G16", Key: "G16|rewrite-guard|no-site", Kind: "undecided", Where: []string{r.pos(fi.Decl.Pos())}, Msg: "no user-file write found in newPackage (the rename rewrite was confirmed by hand)"})
	}
}

// g17StaleArgTypes — the argument types a derive call is registered with are pkgInfo.TypeOf(arg). When an argument contains a
// call that resolves into derived.gen.go (deriveSort(deriveKeys(m))), the type checker answered from the *previous* output:
// after the user retypes m the outer call is generated for the stale type. A driver that meets C07 must let the decision
// "are this call's argument types known yet?" depend on whether an argument mentions a previously derived function (or on a
// per-run freshness flag). Necessary condition checked: something reachable from (*call).HasUndefined / newCall /
// getInputTypes refers to the derived-file classification (the constant derivedFilename, the finder's derived list, or an
// object named after it). If nothing does, stale signatures flow into registration unchecked.
func g17StaleArgTypes(c *Ctx) {
	r, rep := c.Repo, c.Rep
	roots := []string{"derive.(*call).HasUndefined", "derive.newCall", "derive.getInputTypes"}
	seen := map[*types.Func]bool{}
	var queue []*FuncInfo
	for _, k := range roots {
		if fi := r.lookup(k); fi != nil {
			queue = append(queue, fi)
			seen[fi.Fn] = true
		}
	}
	if len(queue) == 0 {
		rep.fail(Finding{Rule: "G17", Key: "G17|stale-arg-types|missing", Kind: "undecided", Msg: "HasUndefined / newCall / getInputTypes not found"})
		return
	}
	consults := ""
	n := 0
	for len(queue) > 0 {
		fi := queue[0]
		queue = queue[1:]
		n++
		info := fi.Pkg.TypesInfo
		ast.Inspect(fi.Decl.Body, func(m ast.Node) bool {
			switch x := m.(type) {
			case *ast.Ident:
				if o := info.Uses[x]; o != nil && o.Pkg() != nil && strings.HasPrefix(o.Pkg().Path(), modPath) {
					if strings.Contains(strings.ToLower(o.Name()), "derived") || strings.Contains(strings.ToLower(o.Name()), "fresh") {
						consults = funcKey(fi.Fn) + " uses " + o.Name()
					}
					if fn, ok := o.(*types.Func); ok && !seen[fn] {
						if cfi := r.Decls[fn]; cfi != nil && cfi.Decl.Body != nil {
							seen[fn] = true
							queue = append(queue, cfi)
						}
					}
				}
			case *ast.SelectorExpr:
				if strings.Contains(strings.ToLower(x.Sel.Name), "derived") {
					consults = funcKey(fi.Fn) + " uses ." + x.Sel.Name
				}
			}
			return true
		})
	}
	// with the previous output hidden, a declaration the type checker knows for a derive function is this run's own: the rule
	// then belongs to C11 (a conflicting call must be detected, not silently typed after the existing function) and is run there
	if !staleHidden(c).goFiles {
		g17ArgTypesFromDeclaration(c)
	}
	rep.analysed("arg_type_functions", n)
	if h := staleHidden(c); h.goFiles {
		// the previous output is not loaded in the first pass at all (G22): no type can come from it
		rep.pass("G17")
		rep.sample(map[string]string{"rule": "G17 argument types cannot come from the previous output", "how": "the first load hides derived.gen.go from the initial packages (G22)"})
		return
	}
	if consults != "" {
		rep.pass("G17")
		rep.sample(map[string]string{"rule": "G17 argument types consult the derived-file classification", "how": consults})
		return
	}
	fi := r.lookup(roots[0])
	if h := staleHidden(c); h.hook {
		rep.fail(Finding{Rule: "G17", Key: "G17|stale-arg-types", Where: []string{r.pos(fi.Decl.Pos())},
			Msg: "the loader's FindPackage hook does not keep the previous derived.gen.go out of the first pass for every package (see the G22 finding), and nothing that decides whether a call's argument types are known yet looks at whether they come from that file: for deriveSort(deriveKeys(m)) the type of deriveKeys(m) is read from the previous output, so after m is retyped the outer function is generated for the stale type"})
		return
	}
	rep.fail(Finding{Rule: "G17", Key: "G17|stale-arg-types", Where: []string{r.pos(fi.Decl.Pos())},
		Msg: "the argument types a call is registered with come from TypeOf(arg) and nothing that decides whether they are known yet looks at whether the argument contains a call into derived.gen.go: for deriveSort(deriveKeys(m)) the type of deriveKeys(m) is read from the previous output, so after m is retyped the outer function is generated for the stale type (one run does not suffice and the result does not type-check)"})
}

// g18CallOrder — the order in which a file's calls are registered decides the order of the generated functions and the
// numbering of helper names. It must be the source order, independent of whether a call was undefined or already resolved
// into the previous derived.gen.go: every recording site of (*finder).Visit appends the call to one and the same list (so
// the list is in visit order), and newPackage does not concatenate classified sub-lists.
func g18CallOrder(r *Repo, rep *Report) {
	visit := r.lookup("derive.(*finder).Visit")
	np := r.lookup("derive.newPackage")
	if visit == nil || np == nil {
		rep.fail(Finding{Rule: "G18", Key: "G18|call-order|missing", Kind: "undecided", Msg: "(*finder).Visit / newPackage not found"})
		return
	}
	lists := map[string]bool{}
	n := 0
	ast.Inspect(visit.Decl.Body, func(m ast.Node) bool {
		as, ok := m.(*ast.AssignStmt)
		if !ok || len(as.Lhs) != 1 || len(as.Rhs) != 1 {
			return true
		}
		c, ok := as.Rhs[0].(*ast.CallExpr)
		if !ok || exprStr(c.Fun) != "append" || len(c.Args) != 2 || exprStr(c.Args[0]) != exprStr(as.Lhs[0]) {
			return true
		}
		if t := visit.Pkg.TypesInfo.TypeOf(c.Args[1]); t == nil || !strings.HasSuffix(t.String(), "ast.CallExpr") {
			return true
		}
		n++
		lists[exprStr(as.Lhs[0])] = true
		return true
	})
	rep.analysed("call_recording_sites", n)
	if n < 2 {
		rep.fail(Finding{Rule: "G18", Key: "G18|call-order|floor", Kind: "undecided", Where: []string{r.pos(visit.Decl.Pos())}, Msg: "fewer call-recording sites in (*finder).Visit than confirmed by hand (undefined callee; callee defined in derived.gen.go)"})
		return
	}
	if len(lists) == 1 {
		rep.pass("G18")
		for l := range lists {
			rep.sample(map[string]string{"rule": "G18 calls recorded in one list, in visit order", "list": l, "sites": fmt.Sprint(n)})
		}
	} else {
		var ls []string
		for l := range lists {
			ls = append(ls, l)
		}
		sortStrings(ls)
		rep.fail(Finding{Rule: "G18", Key: "G18|call-order|classified-lists", Where: []string{r.pos(visit.Decl.Pos())},
			Msg: fmt.Sprintf("(*finder).Visit records calls in %d separate lists (%s) according to whether the callee is undefined or defined in the previous derived.gen.go: whatever order they are processed in, the order of generated functions and the numbering of helper names depend on the previous output (adding a call below an already derived one gives another file than generating from scratch)", len(ls), strings.Join(ls, ", "))})
	}
	// newPackage must not splice lists together either
	info := np.Pkg.TypesInfo
	bad := false
	ast.Inspect(np.Decl.Body, func(m ast.Node) bool {
		c, ok := m.(*ast.CallExpr)
		if !ok || exprStr(c.Fun) != "append" || !c.Ellipsis.IsValid() || len(c.Args) != 2 {
			return true
		}
		t := info.TypeOf(c.Args[0])
		if t != nil && strings.Contains(t.String(), "derive.call") {
			bad = true
			rep.fail(Finding{Rule: "G18", Key: "G18|call-order|spliced", Where: []string{r.pos(c.Pos())},
				Msg: "newPackage splices two lists of calls together (" + exprStr(c) + "): the registration order is not the source order"})
		}
		return true
	})
	if !bad {
		rep.pass("G18")
	}
}

func sortStrings(l []string) {
	for i := 1; i < len(l); i++ {
		for j := i; j > 0 && l[j] < l[j-1]; j-- {
			l[j], l[j-1] = l[j-1], l[j]
		}
	}
}

// g19AtomicPrint — (*pkg).Print creates derived.gen.go with os.Create and then writes it in several steps. An interruption
// in between leaves a prefix of the new output on disk. The loader tolerates a derived file that is cut inside a
// declaration (AllowErrors), but not one cut before its package clause is complete: go/build then cannot determine the
// directory's package and every later run ends with "no initial packages were loaded" until the file is deleted by hand.
// Necessary condition for the interrupted-write clause of C07: the new content replaces the old file atomically (it is
// written to another name and renamed), so that no prefix ever exists under the name derived.gen.go.
func g19AtomicPrint(c *Ctx) {
	r, rep := c.Repo, c.Rep
	if h := staleHidden(c); h.invalid {
		// a remnant is never read: the first load hides the derived file and does not treat an unreadable one as an error (G22)
		rep.pass("G19")
		rep.sample(map[string]string{"rule": "G19 a truncated remnant of derived.gen.go is never read", "how": "G22 (a)-(d)"})
		return
	}
	fi := r.lookup("derive.(*pkg).Print")
	if fi == nil {
		rep.fail(Finding{Rule: "G19", Key: "G19|print|missing", Kind: "undecided", Msg: "(*pkg).Print not found"})
		return
	}
	info := fi.Pkg.TypesInfo
	creates, renames := false, false
	ast.Inspect(fi.Decl.Body, func(m ast.Node) bool {
		c, ok := m.(*ast.CallExpr)
		if !ok {
			return true
		}
		if fn, ok := callee(info, c).(*types.Func); ok && fn.Pkg() != nil && fn.Pkg().Path() == "os" {
			switch fn.Name() {
			case "Create", "OpenFile", "WriteFile":
				creates = true
			case "Rename":
				renames = true
			}
		}
		return true
	})
	switch {
	case !creates:
		rep.fail(Finding{Rule: "G19", Key: "G19|print|shape", Kind: "undecided", Where: []string{r.pos(fi.Decl.Pos())}, Msg: "(*pkg).Print does not create the derived file with os.Create/OpenFile/WriteFile: the rule needs re-confirmation"})
	case renames:
		rep.pass("G19")
	case staleHidden(c).hook:
		rep.fail(Finding{Rule: "G19", Key: "G19|print|non-atomic", Where: []string{r.pos(fi.Decl.Pos())},
			Msg: "(*pkg).Print truncates derived.gen.go and writes it in steps, and the loader's FindPackage hook does not make a remnant harmless (it must hide the derived file on every path and must not report a derived file that go/build cannot read as an error; see G22): a prefix of the output that ends before the package clause is complete makes every later run fail"})
	default:
		rep.fail(Finding{Rule: "G19", Key: "G19|print|non-atomic", Where: []string{r.pos(fi.Decl.Pos())},
			Msg: "(*pkg).Print truncates derived.gen.go and writes it in steps, without writing to another name and renaming: an interrupted run leaves a prefix of the output under the real name, and a prefix that ends before the package clause is complete makes every later run fail"})
	}
}

// g16RewriteTarget — the rename stores a new identifier into call.Expr.Fun, replacing the whole callee expression. That is
// "just the identifier substituted" only if the recorded callee *is* a bare identifier: (*finder).Visit must assert
// call.Fun itself (not ast.Unparen(call.Fun) or any other view of it) to be an *ast.Ident before recording the call.
// Otherwise `(deriveEqual)(a, b)` is rewritten to `deriveEqual_(a, b)`: the parentheses are lost.
func g16RewriteTarget(r *Repo, rep *Report) {
	visit := r.lookup("derive.(*finder).Visit")
	if visit == nil {
		rep.fail(Finding{Rule: "G16", Key: "G16|rewrite-target|missing", Kind: "undecided", Msg: "(*finder).Visit not found"})
		return
	}
	info := visit.Pkg.TypesInfo
	var callObj types.Object
	var asserted []string
	ast.Inspect(visit.Decl.Body, func(n ast.Node) bool {
		as, ok := n.(*ast.AssignStmt)
		if !ok || len(as.Rhs) != 1 {
			return true
		}
		ta, ok := as.Rhs[0].(*ast.TypeAssertExpr)
		if !ok || ta.Type == nil {
			return true
		}
		switch exprStr(ta.Type) {
		case "*ast.CallExpr":
			if id, ok := as.Lhs[0].(*ast.Ident); ok {
				callObj = info.Defs[id]
			}
		case "*ast.Ident":
			asserted = append(asserted, exprStr(ta.X))
		}
		return true
	})
	if callObj == nil {
		rep.fail(Finding{Rule: "G16", Key: "G16|rewrite-target|shape", Kind: "undecided", Where: []string{r.pos(visit.Decl.Pos())}, Msg: "(*finder).Visit: the call variable cannot be identified"})
		return
	}
	want := callObj.Name() + ".Fun"
	if len(asserted) == 1 && asserted[0] == want {
		rep.pass("G16")
		return
	}
	rep.fail(Finding{Rule: "G16", Key: "G16|rewrite-target|not-bare-identifier", Where: []string{r.pos(visit.Decl.Pos())},
		Msg: fmt.Sprintf("(*finder).Visit records calls whose callee is an identifier only after %v: the rename then replaces the whole callee expression (call.Expr.Fun), so for `(deriveEqual)(a, b)` the parentheses disappear — the rewritten file is not the original with just the identifier substituted", asserted)})
}

// g20AliasInjective — when an imported package's own name is taken, NewImport falls back to an alias computed from the import
// path by makeFullpath, and panics if two different paths give the same alias. makeFullpath is evaluated (abstractly, on
// literal paths) over pairs of paths that differ only in their leading elements, in one element, or in length: distinct
// paths must give distinct aliases; and every alias must be a Go identifier.
func g20AliasInjective(c *Ctx) {
	fi := c.Repo.lookup("derive.makeFullpath")
	if fi == nil {
		c.Rep.fail(Finding{Rule: "G20", Key: "G20|alias|missing", Kind: "undecided", Msg: "derive.makeFullpath not found"})
		return
	}
	paths := []string{"demo/billing/v1/model", "demo/shipping/v1/model", "demo/returns/v1/model", "v1/model", "model", "a/model", "go/scanner", "text/scanner",
		"github.com/gogo/protobuf/types", "github.com/golang/protobuf/types", "example.com/x/y-z", "example.com/x/yz"}
	got := map[string]string{}
	for _, p := range paths {
		in := &Interp{repo: c.Repo, plugin: "derive", decls: c.GDecls, or: &Oracle{}, memo: map[string]int{}, shape: 1, arities: []int{1, 0},
			preds: map[string]Value{}, stack: map[*ast.FuncDecl]int{}, imports: map[string]int{}, importUse: map[string]bool{}, holes: map[string]*Hole{}, g9mode: true}
		var res Value
		msg := ""
		func() {
			defer func() {
				if e := recover(); e != nil {
					if a, ok := e.(abort); ok {
						msg = a.kind + ": " + a.msg
						return
					}
					msg = fmt.Sprint(e)
				}
			}()
			res = in.callFunc(&VFunc{Decl: fi.Decl, Pkg: fi.Pkg}, []Value{lit(p)}, token.NoPos)
		}()
		rs, isStr := res.(VStr)
		alias, isLit := "", false
		if isStr {
			alias, isLit = rs.isLit()
		}
		if msg != "" || !isLit {
			c.Rep.fail(Finding{Rule: "G20", Key: "G20|alias|undecided", Kind: "undecided", Where: []string{c.Repo.pos(fi.Decl.Pos())}, Msg: "makeFullpath(" + p + ") cannot be evaluated abstractly: " + msg})
			return
		}
		if !token.IsIdentifier(alias) {
			c.Rep.fail(Finding{Rule: "G20", Key: "G20|alias|not-identifier", Where: []string{c.Repo.pos(fi.Decl.Pos())},
				Msg: fmt.Sprintf("makeFullpath(%q) = %q is not a Go identifier: the import alias makes derived.gen.go unparsable", p, alias)})
			continue
		}
		if prev, dup := got[alias]; dup {
			c.Rep.fail(Finding{Rule: "G20", Key: "G20|alias|collision", Where: []string{c.Repo.pos(fi.Decl.Pos())},
				Msg: fmt.Sprintf("makeFullpath gives the same fallback alias %q for the import paths %q and %q: with a third package of that name in one derived.gen.go NewImport panics (\"non unique fullpath\") instead of importing both", alias, prev, p)})
			continue
		}
		got[alias] = p
		c.Rep.pass("G20")
	}
	c.Rep.analysed("fallback_alias_paths", len(paths))
}

// g21ReserveEveryCalledName — "names the user calls elsewhere are never taken": (*finder).Visit must put the name of every
// called identifier that is defined in the user's own files into funcNames (the reserved set), whatever kind of object it
// denotes (function, function-typed variable, type used as a conversion). Between the lookup of the callee and the insertion
// the only paths that leave early are: callee undefined (recorded as a call to generate), builtin, no file position, defined in
// derived.gen.go. Any other early exit (e.g. "not a *types.Func") lets newName hand out a name the user calls.
func g21ReserveEveryCalledName(r *Repo, rep *Report) {
	visit := r.lookup("derive.(*finder).Visit")
	if visit == nil {
		rep.fail(Finding{Rule: "G21", Key: "G21|reserve|missing", Kind: "undecided", Msg: "(*finder).Visit not found"})
		return
	}
	info := visit.Pkg.TypesInfo
	g := newGraph(visit.Decl.Body, mayReturnFn(info))
	isInsert := func(n ast.Node) bool {
		as, ok := n.(*ast.AssignStmt)
		if !ok || len(as.Lhs) != 1 {
			return false
		}
		if ix, ok := as.Lhs[0].(*ast.IndexExpr); ok {
			if isFuncNames(ix.X) {
				return true
			}
		}
		return false
	}
	var inserts []*cfg.Block
	for _, b := range g.Blocks {
		if blockHas(b, isInsert) {
			inserts = append(inserts, b)
		}
	}
	if len(inserts) == 0 {
		rep.fail(Finding{Rule: "G21", Key: "G21|reserve|no-insert", Where: []string{r.pos(visit.Decl.Pos())},
			Msg: "(*finder).Visit no longer records the names of called functions as a top-level step (funcNames[name] = …): fresh helper names may take names the user calls"})
		return
	}
	canInsert := func(from *cfg.Block) bool {
		if blockHas(from, isInsert) {
			return true
		}
		reach := g.reachable([]*cfg.Block{from}, nil)
		for _, ib := range inserts {
			if reach[ib] {
				return true
			}
		}
		return false
	}
	// the statement that defined a variable (closest definition before pos)
	defOf := func(v types.Object, pos token.Pos) ast.Expr {
		var best ast.Expr
		var bestPos token.Pos
		ast.Inspect(visit.Decl.Body, func(n ast.Node) bool {
			as, ok := n.(*ast.AssignStmt)
			if !ok || len(as.Rhs) != 1 || as.Pos() >= pos {
				return true
			}
			for _, l := range as.Lhs {
				if id, ok := l.(*ast.Ident); ok && (info.Defs[id] == v || info.Uses[id] == v) && as.Pos() > bestPos {
					best, bestPos = as.Rhs[0], as.Pos()
				}
			}
			return true
		})
		return best
	}
	n := 0
	for _, b := range g.Blocks {
		if len(b.Succs) != 2 || len(b.Nodes) == 0 {
			continue
		}
		cond, ok := b.Nodes[len(b.Nodes)-1].(ast.Expr)
		if !ok || !canInsert(b) {
			continue
		}
		t, f := canInsert(b.Succs[0]), canInsert(b.Succs[1])
		if t == f {
			continue
		}
		// this test decides whether the callee's name is reserved: exitWhen is the outcome that leaves without reserving
		n++
		exitWhen := !t
		what := exprStr(cond)
		condPos := b.Nodes[len(b.Nodes)-1].Pos()
		var allowedExit func(e ast.Expr, exitWhen bool) bool
		allowedExit = func(e ast.Expr, exitWhen bool) bool {
			ce := ast.Unparen(e)
			if u, ok := ce.(*ast.UnaryExpr); ok && u.Op == token.NOT {
				return allowedExit(u.X, !exitWhen)
			}
			switch x := ce.(type) {
			case *ast.Ident:
				// the ok of a type assertion or map lookup
				if src := defOf(info.Uses[x], condPos); src != nil {
					switch y := ast.Unparen(src).(type) {
					case *ast.TypeAssertExpr:
						ts := exprStr(y.Type)
						if (ts == "*ast.CallExpr" || ts == "*ast.Ident") && !exitWhen {
							return true // the node is no call / the callee is no bare identifier
						}
						if ts == "*types.Builtin" && exitWhen {
							return true
						}
					case *ast.IndexExpr:
						if sel, ok := ast.Unparen(y.X).(*ast.SelectorExpr); ok && sel.Sel.Name == "Uses" && !exitWhen {
							return true // undefined callee: recorded as a call to generate
						}
					}
				}
			case *ast.BinaryExpr:
				switch x.Op {
				case token.LOR:
					if exitWhen {
						return allowedExit(x.X, true) && allowedExit(x.Y, true) // either disjunct alone ends the visit
					}
					return allowedExit(x.X, false) || allowedExit(x.Y, false)
				case token.LAND:
					if exitWhen {
						return allowedExit(x.X, true) || allowedExit(x.Y, true)
					}
					return allowedExit(x.X, false) && allowedExit(x.Y, false)
				case token.EQL, token.NEQ:
					if x.Op == token.NEQ {
						exitWhen = !exitWhen
					}
					// exitWhen now refers to the equality holding
					ok := false
					for _, side := range []ast.Expr{x.X, x.Y} {
						if isNilIdent(info, side) && exitWhen {
							other := x.X
							if side == x.X {
								other = x.Y
							}
							if t := info.TypeOf(other); t != nil && strings.HasSuffix(t.String(), "token.File") {
								ok = true // no file for the position (a conversion such as float64())
							}
						}
						if id, isID := ast.Unparen(side).(*ast.Ident); isID && id.Name == "derivedFilename" {
							ok = exitWhen // defined in the previous output: queued for regeneration instead
						}
					}
					return ok
				}
			}
			return false
		}
		allowed := allowedExit(cond, exitWhen)
		if id, isID := ast.Unparen(cond).(*ast.Ident); isID {
			if src := defOf(info.Uses[id], condPos); src != nil {
				what = exprStr(src) + " " + map[bool]string{true: "succeeds", false: "fails"}[exitWhen]
			}
		}
		if !allowed {
			rep.fail(Finding{Rule: "G21", Key: "G21|reserve|early-exit", Where: []string{r.pos(cond.Pos())},
				Msg: fmt.Sprintf("(*finder).Visit leaves before reserving the callee's name when `%s`: called identifiers of other kinds (function-typed variables, types used as conversions) are not reserved, so a fresh helper name can collide with a name the user calls", what)})
		} else {
			rep.pass("G21")
		}
	}
	rep.analysed("visit_early_exits", n)
	if n < 4 {
		rep.fail(Finding{Rule: "G21", Key: "G21|reserve|floor", Kind: "undecided", Where: []string{r.pos(visit.Decl.Pos())}, Msg: "fewer early exits in (*finder).Visit than confirmed by hand"})
	}
}

// syntaxOnlyUse: the Errors list is ranged over and each element is used only as the operand of a type assertion (or type
// switch) to a type of go/scanner.
func syntaxOnlyUse(b *Body, info *types.Info, errs *ast.SelectorExpr) bool {
	var rng *ast.RangeStmt
	inspectOwn(b.Block, func(m ast.Node) bool {
		if rs, ok := m.(*ast.RangeStmt); ok && ast.Unparen(rs.X) == ast.Expr(errs) {
			rng = rs
		}
		return true
	})
	if rng == nil || rng.Value == nil {
		return false
	}
	vid, ok := rng.Value.(*ast.Ident)
	if !ok {
		return false
	}
	vObj := info.Defs[vid]
	asserted := map[*ast.Ident]bool{}
	okAll := true
	isScanner := func(t types.Type) bool {
		if pt, ok := t.(*types.Pointer); ok {
			t = pt.Elem()
		}
		nt, ok := t.(*types.Named)
		return ok && nt.Obj().Pkg() != nil && nt.Obj().Pkg().Path() == "go/scanner"
	}
	ast.Inspect(rng.Body, func(m ast.Node) bool {
		if ta, ok := m.(*ast.TypeAssertExpr); ok && ta.Type != nil {
			if id, ok := ast.Unparen(ta.X).(*ast.Ident); ok && info.Uses[id] == vObj && isScanner(info.TypeOf(ta.Type)) {
				asserted[id] = true
			}
		}
		return true
	})
	uses := 0
	ast.Inspect(rng.Body, func(m ast.Node) bool {
		if id, ok := m.(*ast.Ident); ok && info.Uses[id] == vObj {
			uses++
			if !asserted[id] {
				okAll = false
			}
		}
		return true
	})
	return okAll && uses > 0
}

// g17ArgTypesFromDeclaration — the types a call is registered with are the call site's: nothing on the way from newCall to the
// argument types may look the called function up (Uses/Defs/ObjectOf) and read its declared signature. For a previously derived
// function that is the previous output's signature (C07); for one generated earlier in this run it makes a later call with an
// assignable-but-different argument type pass as the same registration, so that the conflict is not reported (C11).
func g17ArgTypesFromDeclaration(c *Ctx) {
	r, rep := c.Repo, c.Rep
	found := 0
	// the types a call is registered with are the call site's: nothing on the way from newCall to the argument types may look
	// the called function up (Uses/Defs/ObjectOf) and read its declared signature — for a previously derived function that is
	// the previous output's signature
	for _, k := range []string{"derive.newCall", "derive.getInputTypes"} {
		seen2 := map[*types.Func]bool{}
		var q []*FuncInfo
		if fi := r.lookup(k); fi != nil {
			q = append(q, fi)
			seen2[fi.Fn] = true
		}
		for len(q) > 0 {
			fi := q[0]
			q = q[1:]
			info := fi.Pkg.TypesInfo
			ast.Inspect(fi.Decl.Body, func(m ast.Node) bool {
				switch x := m.(type) {
				case *ast.IndexExpr:
					if sel, ok := x.X.(*ast.SelectorExpr); ok && (sel.Sel.Name == "Uses" || sel.Sel.Name == "Defs") {
						found++
						rep.fail(Finding{Rule: "G17", Key: "G17|arg-types-from-declaration|" + funcKey(fi.Fn), Where: []string{r.pos(x.Pos())},
							Msg: funcKey(fi.Fn) + " looks an identifier up in the type checker's " + sel.Sel.Name + " map while computing the argument types of a call: if that is the called function, its parameter types come from the existing derived.gen.go, so a retyped argument that is still assignable to the old parameter keeps the old signature alive (the output differs from the one generated from scratch)"})
					}
				case *ast.CallExpr:
					if sel, ok := x.Fun.(*ast.SelectorExpr); ok && (sel.Sel.Name == "ObjectOf" || sel.Sel.Name == "Lookup") {
						found++
						rep.fail(Finding{Rule: "G17", Key: "G17|arg-types-from-declaration|" + funcKey(fi.Fn), Where: []string{r.pos(x.Pos())},
							Msg: funcKey(fi.Fn) + " resolves an identifier (" + sel.Sel.Name + ") while computing the argument types of a call: argument types must come from the argument expressions only, never from the declaration of the called function, which for a derived function is the previous output"})
					}
					if fn, ok := callee(info, x).(*types.Func); ok && !seen2[fn] {
						if cfi := r.Decls[fn]; cfi != nil && cfi.Decl.Body != nil && cfi.Pkg.Name == "derive" {
							seen2[fn] = true
							q = append(q, cfi)
						}
					}
				}
				return true
			})
		}
	}
	if found == 0 {
		rep.pass("G17")
	}
}

// g24FirstArgNotNil — the literal nil has the type `untyped nil`, which cannot be printed as a parameter type. (*pkg).Add, through
// which every call reaches its plugin, must reject a call whose first argument has that type before handing it to the plugin:
// an if statement that dominates the generator's Add call, whose condition tests the Kind() of call.Args[0] (asserted to
// *types.Basic) against types.UntypedNil and whose body returns a non-nil error. Engine R takes the first argument of its
// abstract input space to be typed exactly when this holds.
func g24FirstArgNotNil(c *Ctx) bool {
	if v, ok := g24Memo[c.Repo]; ok {
		return v
	}
	r := c.Repo
	res := false
	defer func() { g24Memo[c.Repo] = res }()
	fi := r.lookup("derive.(*pkg).Add")
	if fi == nil {
		return false
	}
	info := fi.Pkg.TypesInfo
	g := newGraph(fi.Decl.Body, func(*ast.CallExpr) bool { return true })
	var genAdd *ast.CallExpr
	ast.Inspect(fi.Decl.Body, func(n ast.Node) bool {
		if call, ok := n.(*ast.CallExpr); ok {
			if fn, ok := callee(info, call).(*types.Func); ok && fn.Name() == "Add" && fn.Pkg() != nil && strings.HasSuffix(fn.Pkg().Path(), "/derive") {
				if sig := fn.Type().(*types.Signature); sig.Recv() != nil && types.IsInterface(sig.Recv().Type()) {
					genAdd = call
				}
			}
		}
		return true
	})
	if genAdd == nil {
		return false
	}
	// P: "the first argument is the untyped nil". A P-test is `B.Kind() == types.UntypedNil` (alone or as a conjunct, e.g.
	// with the ok of the assertion) where B comes from `B, ok := <…>.Args[0].(*types.Basic)`; a boolean variable carries P when
	// every assignment to it is the constant false or a P-test. Rule (CFG): no path from the entry reaches the generator's Add
	// without passing a P-test on its false edge — except through the "no arguments" edge of a test of len(<…>.Args) — and the
	// true edge of a P-test does not reach it.
	basics := map[types.Object]bool{}
	oks := map[types.Object]bool{}
	ast.Inspect(fi.Decl.Body, func(n ast.Node) bool {
		as, ok := n.(*ast.AssignStmt)
		if !ok || len(as.Rhs) != 1 || len(as.Lhs) < 1 {
			return true
		}
		ta, ok := ast.Unparen(as.Rhs[0]).(*ast.TypeAssertExpr)
		if !ok || ta.Type == nil || exprStr(ta.Type) != "*types.Basic" {
			return true
		}
		if !strings.HasSuffix(exprStr(ta.X), ".Args[0]") {
			// a local that holds the first argument: every assignment to it is <…>.Args[0] (its zero value, nil, is not the
			// untyped nil type)
			id, isID := ast.Unparen(ta.X).(*ast.Ident)
			if !isID {
				return true
			}
			lv := info.Uses[id]
			okLocal, assigns := lv != nil, 0
			ast.Inspect(fi.Decl.Body, func(m ast.Node) bool {
				a2, isAs := m.(*ast.AssignStmt)
				if !isAs || len(a2.Lhs) != len(a2.Rhs) {
					return true
				}
				for k, l := range a2.Lhs {
					if lid, isL := l.(*ast.Ident); isL && objOf(info, lid) == lv {
						assigns++
						if !strings.HasSuffix(exprStr(a2.Rhs[k]), ".Args[0]") {
							okLocal = false
						}
					}
				}
				return true
			})
			if !okLocal || assigns == 0 {
				return true
			}
		}
		if id, ok := as.Lhs[0].(*ast.Ident); ok {
			if o := objOf(info, id); o != nil {
				basics[o] = true
			}
		}
		if len(as.Lhs) == 2 {
			if id, ok := as.Lhs[1].(*ast.Ident); ok {
				if o := objOf(info, id); o != nil {
					oks[o] = true
				}
			}
		}
		return true
	})
	var isPTest func(e ast.Expr) bool
	isPTest = func(e ast.Expr) bool {
		switch x := ast.Unparen(e).(type) {
		case *ast.BinaryExpr:
			if x.Op == token.LAND {
				// only the ok of the assertion may stand next to the test: any other conjunct weakens the rejection
				isOK := func(y ast.Expr) bool {
					id, ok := ast.Unparen(y).(*ast.Ident)
					return ok && oks[info.Uses[id]]
				}
				return (isOK(x.X) && isPTest(x.Y)) || (isPTest(x.X) && isOK(x.Y))
			}
			if x.Op == token.EQL {
				if c, ok := ast.Unparen(x.X).(*ast.CallExpr); ok {
					if sel, ok := c.Fun.(*ast.SelectorExpr); ok && sel.Sel.Name == "Kind" {
						if id, ok := ast.Unparen(sel.X).(*ast.Ident); ok && basics[info.Uses[id]] {
							if tv, has := info.Types[x.Y]; has && tv.Value != nil && tv.Value.String() == fmt.Sprint(int(types.UntypedNil)) {
								return true
							}
						}
					}
				}
			}
		}
		return false
	}
	carriers := map[types.Object]bool{}
	notCarrier := map[types.Object]bool{}
	ast.Inspect(fi.Decl.Body, func(n ast.Node) bool {
		as, ok := n.(*ast.AssignStmt)
		if !ok || len(as.Lhs) != len(as.Rhs) {
			return true
		}
		for k, l := range as.Lhs {
			id, ok := l.(*ast.Ident)
			if !ok {
				continue
			}
			o := objOf(info, id)
			if o == nil || !types.Identical(o.Type(), types.Typ[types.Bool]) {
				continue
			}
			if tv, has := info.Types[as.Rhs[k]]; has && tv.Value != nil && tv.Value.String() == "false" {
				continue
			}
			if isPTest(as.Rhs[k]) {
				carriers[o] = true
			} else {
				notCarrier[o] = true
			}
		}
		return true
	})
	condIsP := func(e ast.Expr) bool {
		if isPTest(e) {
			return true
		}
		if id, ok := ast.Unparen(e).(*ast.Ident); ok {
			o := info.Uses[id]
			return carriers[o] && !notCarrier[o]
		}
		return false
	}
	// len(<…>.Args) > 0 / != 0 / == 0: which edge is the "there is a first argument" edge
	hasArgEdge := func(e ast.Expr) (int, bool) {
		be, ok := ast.Unparen(e).(*ast.BinaryExpr)
		if !ok || !strings.HasPrefix(exprStr(be.X), "len(") || !strings.HasSuffix(exprStr(be.X), ".Args)") || exprStr(be.Y) != "0" {
			return 0, false
		}
		switch be.Op {
		case token.GTR, token.NEQ:
			return 0, true
		case token.EQL:
			return 1, true
		}
		return 0, false
	}
	gb, _ := g.locate(genAdd.Pos())
	if gb == nil {
		return false
	}
	tests := 0
	okTrueEdges := true
	seen := map[*cfg.Block]bool{}
	reached := false
	var dfs func(b *cfg.Block)
	dfs = func(b *cfg.Block) {
		if seen[b] || reached {
			return
		}
		seen[b] = true
		if b == gb {
			reached = true
			return
		}
		if len(b.Succs) == 2 && len(b.Nodes) > 0 {
			if cond, ok := b.Nodes[len(b.Nodes)-1].(ast.Expr); ok {
				if condIsP(cond) {
					tests++
					return // every way on from here took the test (its "is nil" edge is judged below)
				}
				if edge, ok := hasArgEdge(cond); ok {
					dfs(b.Succs[edge])
					return
				}
			}
		}
		for _, sx := range b.Succs {
			dfs(sx)
		}
	}
	if e := g.entry(); e != nil {
		dfs(e)
	}
	// the true edge of every P-test must end in an error return before Add: checked as "Add not reachable without the test
	// again"; a P-test whose true edge falls through to Add is no rejection
	for _, b := range g.Blocks {
		if len(b.Succs) != 2 || len(b.Nodes) == 0 {
			continue
		}
		cond, ok := b.Nodes[len(b.Nodes)-1].(ast.Expr)
		if !ok || !condIsP(cond) {
			continue
		}
		// from the true edge, stopping at loop heads (the next plugin is a new iteration, the test is taken again)
		if g.reachable([]*cfg.Block{b.Succs[0]}, func(x *cfg.Block) bool { return x.Kind == cfg.KindRangeLoop || x.Kind == cfg.KindForLoop })[gb] || b.Succs[0] == gb {
			okTrueEdges = false
		}
	}
	res = tests > 0 && !reached && okTrueEdges
	return res
}

var g24Memo = map[*Repo]bool{}

// g25FieldRendering — how a struct field is written depends on whether it is embedded (`T`, not `T T`). A function of the driver
// that turns fields (a []*types.Var parameter or the fields of a *types.Struct) into text lines ([]string result) must leave
// that decision to go/types (types.NewStruct + TypeString) or consult Embedded()/Anonymous() itself: composing a line from
// Var.Name() and the field's type prints an embedded field as a named one, which is another struct type.
func g25FieldRendering(r *Repo, rep *Report) {
	n := 0
	for _, fi := range r.sortedFuncs() {
		if fi.Pkg.Name != "derive" {
			continue
		}
		sig := fi.Fn.Type().(*types.Signature)
		takesFields := false
		for i := 0; i < sig.Params().Len(); i++ {
			t := sig.Params().At(i).Type().String()
			if t == "[]*go/types.Var" || t == "*go/types.Struct" {
				takesFields = true
			}
		}
		returnsLines := false
		for i := 0; i < sig.Results().Len(); i++ {
			if sig.Results().At(i).Type().String() == "[]string" {
				returnsLines = true
			}
		}
		if !takesFields || !returnsLines {
			continue
		}
		n++
		info := fi.Pkg.TypesInfo
		var nameCall ast.Node
		consults := false
		ast.Inspect(fi.Decl.Body, func(m ast.Node) bool {
			c, ok := m.(*ast.CallExpr)
			if !ok {
				return true
			}
			fn, ok := callee(info, c).(*types.Func)
			if !ok || fn.Pkg() == nil || fn.Pkg().Path() != "go/types" {
				return true
			}
			// Name() is promoted from the embedded object: look at the type of the receiver expression
			sel, ok := c.Fun.(*ast.SelectorExpr)
			if !ok {
				return true
			}
			if t := info.TypeOf(sel.X); t == nil || !strings.HasSuffix(t.String(), "types.Var") {
				return true
			}
			switch fn.Name() {
			case "Name":
				if nameCall == nil {
					nameCall = c
				}
			case "Embedded", "Anonymous":
				consults = true
			}
			return true
		})
		if nameCall != nil && !consults {
			rep.fail(Finding{Rule: "G25", Key: "G25|field-rendering|" + funcKey(fi.Fn), Where: []string{r.pos(nameCall.Pos())},
				Msg: funcKey(fi.Fn) + " composes the text of struct fields from Var.Name() without consulting Embedded(): an embedded field `T` is printed as `T T`, which is a different struct type, so a function generated for an unnamed struct with an embedded field does not accept its argument"})
		} else {
			rep.pass("G25")
		}
	}
	rep.analysed("field_rendering_functions", n)
	if n == 0 {
		rep.fail(Finding{Rule: "G25", Key: "G25|field-rendering|floor", Kind: "undecided", Msg: "no function of package derive turns struct fields into text lines (FieldStrings was confirmed by hand)"})
	}
}

// g28BypassQualifier — the text derived GoString prints is pasted into another package's source, where a type of package P is
// reached as P's *package name* (`geo.Point` for package geo at demo/geo/v2), whatever the directory is called. bypassQual, the
// qualifier behind TypeStringBypass, must therefore return the package's Name() on every path.
func g28BypassQualifier(r *Repo, rep *Report) {
	fi := r.lookup("derive.bypassQual")
	if fi == nil {
		rep.fail(Finding{Rule: "G28", Key: "G28|bypass-qualifier|missing", Kind: "undecided", Msg: "derive.bypassQual not found"})
		return
	}
	info := fi.Pkg.TypesInfo
	var param types.Object
	if fl := fi.Decl.Type.Params.List; len(fl) == 1 && len(fl[0].Names) == 1 {
		param = info.Defs[fl[0].Names[0]]
	}
	n, bad := 0, false
	ast.Inspect(fi.Decl.Body, func(m ast.Node) bool {
		ret, ok := m.(*ast.ReturnStmt)
		if !ok || len(ret.Results) != 1 {
			return true
		}
		n++
		okRet := false
		if c, ok := ast.Unparen(ret.Results[0]).(*ast.CallExpr); ok && len(c.Args) == 0 {
			if sel, ok := c.Fun.(*ast.SelectorExpr); ok && sel.Sel.Name == "Name" {
				if id, ok := ast.Unparen(sel.X).(*ast.Ident); ok && param != nil && info.Uses[id] == param {
					okRet = true
				}
			}
		}
		if !okRet {
			bad = true
			rep.fail(Finding{Rule: "G28", Key: "G28|bypass-qualifier|not-package-name", Where: []string{r.pos(ret.Pos())},
				Msg: "bypassQual can return " + exprStr(ret.Results[0]) + " instead of the package's name: the text of derived GoString then qualifies a type with something that is not the identifier under which its package is imported (v2.Point for package geo at demo/geo/v2), and does not compile"})
		}
		return true
	})
	if n == 0 {
		rep.fail(Finding{Rule: "G28", Key: "G28|bypass-qualifier|floor", Kind: "undecided", Where: []string{r.pos(fi.Decl.Pos())}, Msg: "bypassQual has no return statement"})
		return
	}
	if !bad {
		rep.pass("G28")
	}
}

// g29EqDefaults — eq decides whether two argument type lists denote the same generated function. Constant arguments have untyped
// types; AssignableTo is asymmetric on them (an untyped int is assignable to float64, a float64 is not assignable to an untyped
// int), so both operands must be defaulted first (types.Default), as the printed signature is.
func g29EqDefaults(r *Repo, rep *Report) {
	fi := r.lookup("derive.eq")
	if fi == nil {
		rep.fail(Finding{Rule: "G16", Key: "G16|eq|missing", Kind: "undecided", Msg: "derive.eq not found"})
		return
	}
	info := fi.Pkg.TypesInfo
	n, bad := 0, false
	ast.Inspect(fi.Decl.Body, func(m ast.Node) bool {
		c, ok := m.(*ast.CallExpr)
		if !ok {
			return true
		}
		fn, ok := callee(info, c).(*types.Func)
		if !ok || fn.Pkg() == nil || fn.Pkg().Path() != "go/types" || (fn.Name() != "AssignableTo" && fn.Name() != "Identical" && fn.Name() != "ConvertibleTo") {
			return true
		}
		n++
		for _, a := range c.Args {
			// a local with one definition stands for that definition (from, to := types.Default(a), types.Default(b))
			if id, isID := ast.Unparen(a).(*ast.Ident); isID {
				if lv, isVar := info.Uses[id].(*types.Var); isVar {
					var defs []ast.Expr
					ast.Inspect(fi.Decl.Body, func(k ast.Node) bool {
						if as, ok := k.(*ast.AssignStmt); ok && len(as.Lhs) == len(as.Rhs) {
							for j, l := range as.Lhs {
								if lid, ok := l.(*ast.Ident); ok && objOf(info, lid) == types.Object(lv) {
									defs = append(defs, as.Rhs[j])
								}
							}
						}
						return true
					})
					if len(defs) == 1 {
						a = defs[0]
					}
				}
			}
			ac, isCall := ast.Unparen(a).(*ast.CallExpr)
			isDefault := false
			if isCall {
				if f2, ok := callee(info, ac).(*types.Func); ok && f2.Pkg() != nil && f2.Pkg().Path() == "go/types" && f2.Name() == "Default" {
					isDefault = true
				}
			}
			if !isDefault {
				bad = true
				rep.fail(Finding{Rule: "G16", Key: "G16|eq|undefaulted", Where: []string{r.pos(c.Pos())},
					Msg: "eq compares argument types without types.Default: the types of constant arguments are untyped (deriveCompare(1, 2)), and " + fn.Name() + " is asymmetric on them, so a call with constants next to a typed call of the same plugin is taken for the same function when it is a conflict, or for another one when it is a duplicate"})
				return false
			}
		}
		return true
	})
	if n == 0 {
		rep.fail(Finding{Rule: "G16", Key: "G16|eq|no-comparison", Kind: "undecided", Where: []string{r.pos(fi.Decl.Pos())}, Msg: "eq does not compare types with go/types"})
		return
	}
	if !bad {
		rep.pass("G16")
	}
}

// g30GeneratorStateless — a plugin's generator value is created once per package (New) and then asked to Generate one function
// after the other. Whatever Generate emits must be a function of the types it is given (and of the name tables and printer it
// shares with the driver): a field of the generator that a method other than New writes (a counter, a cache, a "last seen" value)
// carries over from one generated function to the next, so the text of a function depends on which functions the package
// generated before it.
func g30GeneratorStateless(r *Repo, rep *Report) {
	n := 0
	for _, fi := range r.sortedFuncs() {
		if !strings.HasPrefix(fi.Pkg.PkgPath, modPath+"/plugin/") {
			continue
		}
		sig := fi.Fn.Type().(*types.Signature)
		if sig.Recv() == nil {
			continue
		}
		rt := sig.Recv().Type()
		if p, ok := rt.(*types.Pointer); ok {
			rt = p.Elem()
		}
		nt, ok := rt.(*types.Named)
		if !ok || nt.Obj().Name() != "gen" {
			continue
		}
		n++
		info := fi.Pkg.TypesInfo
		recvObj := types.Object(nil)
		if fi.Decl.Recv != nil && len(fi.Decl.Recv.List) == 1 && len(fi.Decl.Recv.List[0].Names) == 1 {
			recvObj = info.Defs[fi.Decl.Recv.List[0].Names[0]]
		}
		if recvObj == nil {
			continue
		}
		isRecvField := func(e ast.Expr) bool {
			for {
				switch x := ast.Unparen(e).(type) {
				case *ast.SelectorExpr:
					if id, ok := ast.Unparen(x.X).(*ast.Ident); ok && info.Uses[id] == recvObj {
						if s, ok := info.Selections[x]; ok && s.Kind() == types.FieldVal {
							return true
						}
					}
					e = x.X
					continue
				case *ast.IndexExpr:
					e = x.X
					continue
				case *ast.StarExpr:
					e = x.X
					continue
				}
				return false
			}
		}
		ast.Inspect(fi.Decl.Body, func(m ast.Node) bool {
			var lhs []ast.Expr
			switch x := m.(type) {
			case *ast.AssignStmt:
				if x.Tok != token.DEFINE {
					lhs = x.Lhs
				}
			case *ast.IncDecStmt:
				lhs = []ast.Expr{x.X}
			}
			for _, l := range lhs {
				if isRecvField(l) {
					rep.fail(Finding{Rule: "G30", Key: "G30|generator-state|" + funcKey(fi.Fn), Where: []string{r.pos(l.Pos())},
						Msg: funcKey(fi.Fn) + " writes the generator field " + exprStr(l) + ": the generator lives as long as the package, so the value carries over from one generated function to the next and the code emitted for a function depends on which functions were generated before it (a counter that is never reset makes the second function wait for more goroutines than it starts)"})
				}
			}
			return true
		})
	}
	rep.analysed("generator_methods", n)
	if n < 60 {
		rep.fail(Finding{Rule: "G30", Key: "G30|generator-state|floor", Kind: "undecided", Msg: fmt.Sprintf("only %d methods of plugin generators found (more than 60 confirmed by hand)", n)})
	}
	rep.pass("G30")
}

// g31PackageOrder — the loader lists an external test package (package p_test) *before* the package it tests (created packages
// first, imported ones after). Both live in one directory and share one derived.gen.go, and a package without derive calls ends
// with Delete: only in the loader's order does the package with the calls write the file last. Reordering the initial packages
// (sorting them by path puts p before p_test) lets the test package delete the file that was just generated.
func g31PackageOrder(r *Repo, rep *Report) {
	n := 0
	for _, b := range r.bodies() {
		if b.Pkg.Name != "derive" {
			continue
		}
		info := b.Pkg.TypesInfo
		inspectOwn(b.Block, func(m ast.Node) bool {
			c, ok := m.(*ast.CallExpr)
			if !ok || len(c.Args) == 0 {
				return true
			}
			fn, ok := callee(info, c).(*types.Func)
			if !ok || fn.Pkg() == nil || (fn.Pkg().Path() != "sort" && fn.Pkg().Path() != "slices") {
				return true
			}
			t := info.TypeOf(c.Args[0])
			if t == nil || !strings.Contains(t.String(), "loader.PackageInfo") {
				return true
			}
			n++
			rep.fail(Finding{Rule: "G31", Key: "G31|package-order|" + b.Name, Where: []string{r.pos(c.Pos())},
				Msg: b.Name + " reorders the initial packages: the loader lists an external test package before the package it shares a directory (and a derived.gen.go) with, so that the package with the derive calls writes the file last; in another order the test package, which has no derive calls, deletes the file that was just generated"})
			return true
		})
	}
	rep.analysed("package_reorderings", n)
	if n == 0 {
		rep.pass("G31")
	}
}

// g33SpellableCastType — an unexported field of a struct of another package is read through *(*T)(unsafe.Pointer(…)), where T is
// printed into derived.gen.go. The field's declared type may itself be unexported by that package (bytes.readOp in
// bytes.Buffer): its name cannot be written outside the package. Whatever computes the text of T in package derive
// (the typeStr of a Field) must therefore look at the exportedness of a named field type (Obj().Exported()) before it spells it.
func g33SpellableCastType(r *Repo, rep *Report) {
	fi := r.lookup("derive.Fields")
	if fi == nil {
		rep.fail(Finding{Rule: "G33", Key: "G33|cast-type|missing", Kind: "undecided", Msg: "derive.Fields not found"})
		return
	}
	// every function reachable (within package derive) from the bodies that call TypeString inside derive.Fields
	consults := false
	spells := 0
	seen := map[*types.Func]bool{}
	var visit func(body ast.Node, info *types.Info, depth int)
	visit = func(body ast.Node, info *types.Info, depth int) {
		ast.Inspect(body, func(m ast.Node) bool {
			c, ok := m.(*ast.CallExpr)
			if !ok {
				return true
			}
			fn, _ := callee(info, c).(*types.Func)
			if fn == nil {
				return true
			}
			// the exportedness of a *type name* (types.Object.Exported, or IsExported of an object's name) — not the
			// exportedness of the field's own name, which Field.Private looks at
			if sig, _ := fn.Type().(*types.Signature); fn.Name() == "Exported" && sig != nil && sig.Recv() != nil && fn.Pkg() != nil && fn.Pkg().Path() == "go/types" {
				consults = true
			}
			if fn.Name() == "IsExported" && len(c.Args) == 1 && strings.Contains(exprStr(c.Args[0]), "Obj()") {
				consults = true
			}
			if fn.Name() == "TypeString" {
				spells++
			}
			if d := r.Decls[fn]; d != nil && d.Decl.Body != nil && d.Pkg.Name == "derive" && !seen[fn] && depth < 3 {
				seen[fn] = true
				visit(d.Decl.Body, d.Pkg.TypesInfo, depth+1)
			}
			return true
		})
	}
	// where the text of the cast type is made: derive.Fields (with its closures) and (*Field).Name, which prints the cast,
	// each with the functions of package derive they call
	visit(fi.Decl.Body, fi.Pkg.TypesInfo, 0)
	if nm := r.lookup("derive.(*Field).Name"); nm != nil {
		visit(nm.Decl.Body, nm.Pkg.TypesInfo, 0)
	}
	rep.analysed("cast_type_spellings", spells)
	switch {
	case spells == 0:
		rep.fail(Finding{Rule: "G33", Key: "G33|cast-type|floor", Kind: "undecided", Where: []string{r.pos(fi.Decl.Pos())}, Msg: "neither derive.Fields nor (*Field).Name (nor what they call in package derive) asks for the text of a field's type (confirmed by hand)"})
	case consults:
		rep.pass("G33")
	default:
		rep.fail(Finding{Rule: "G33", Key: "G33|cast-type|unexported-type-spelled", Where: []string{r.pos(fi.Decl.Pos())},
			Msg: "derive.Fields spells the declared type of an unexported field of an imported struct without looking at whether that type is exported: for bytes.Buffer (lastRead readOp) the cast is *(*bytes.readOp)(unsafe.Pointer(…)), goderive exits 0 and the package does not compile (name readOp not exported by package bytes)"})
	}
}

// g31NoPackageSkipped — (*program).Generate hands every initial package to generatePackage: on every path round the loop over
// the loaded packages generatePackage is called for the current element. A package that is filtered out here (by its name, by the
// age of its files, by what an earlier run left behind) keeps whatever derived.gen.go it had: the file is neither regenerated from
// the current sources nor removed, and the run still exits 0. The directory of an external test package is the directory of
// the package it tests; it owns that directory's derived file when the package itself has no files left.
func g31NoPackageSkipped(r *Repo, rep *Report) {
	fi := r.lookup("derive.(*program).Generate")
	gp := r.lookup("derive.(*program).generatePackage")
	if fi == nil || gp == nil {
		rep.fail(Finding{Rule: "G31", Key: "G31|no-skip|missing", Kind: "undecided", Msg: "(*program).Generate / generatePackage not found"})
		return
	}
	info := fi.Pkg.TypesInfo
	g := newGraph(fi.Decl.Body, mayReturnFn(info))
	loops := 0
	ast.Inspect(fi.Decl.Body, func(n ast.Node) bool {
		var body *ast.BlockStmt
		switch x := n.(type) {
		case *ast.RangeStmt:
			body = x.Body
		case *ast.ForStmt:
			body = x.Body
		default:
			return true
		}
		if !nodeHas(body, func(k ast.Node) bool {
			c, ok := k.(*ast.CallExpr)
			return ok && callee(info, c) == gp.Fn
		}) {
			return true
		}
		loops++
		found, ok := loopBodyMustPass(g, n.(ast.Stmt), body, func(b *cfg.Block) bool {
			return blockHas(b, func(k ast.Node) bool {
				c, ok := k.(*ast.CallExpr)
				return ok && callee(info, c) == gp.Fn
			})
		})
		switch {
		case !found:
			rep.fail(Finding{Rule: "G31", Key: "G31|no-skip|shape", Kind: "undecided", Where: []string{r.pos(n.Pos())}, Msg: "the loop over the initial packages has no body block in the control-flow graph"})
		case !ok:
			rep.fail(Finding{Rule: "G31", Key: "G31|package-skipped", Where: []string{r.pos(n.Pos())},
				Msg: "(*program).Generate can go round the loop over the initial packages without calling generatePackage for the current one: a package that is skipped keeps the derived.gen.go of an earlier run (it is neither regenerated from the current sources nor deleted), and the run exits 0"})
		default:
			rep.pass("G31")
			rep.sample(map[string]string{"rule": "G31 every initial package is generated", "loop": r.pos(n.Pos())})
		}
		return false
	})
	if loops == 0 {
		rep.fail(Finding{Rule: "G31", Key: "G31|no-skip|floor", Kind: "undecided", Where: []string{r.pos(fi.Decl.Pos())}, Msg: "(*program).Generate has no loop that calls generatePackage (confirmed by hand)"})
	}
}
