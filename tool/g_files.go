package main

import (
	"fmt"
	"go/ast"
	"go/constant"
	"go/token"
	"go/types"
	"sort"
	"strings"

	"golang.org/x/tools/go/cfg"
)

// ---------------------------------------------------------------------------------------------
// G4 — file-effect ownership
// ---------------------------------------------------------------------------------------------

// read-only members of package os that the generator may use anywhere
var osReadOnly = map[string]bool{
	"Stat": true, "Lstat": true, "IsNotExist": true, "IsExist": true, "IsPermission": true, "Getenv": true, "LookupEnv": true,
	"Open": true, "ReadFile": true, "ReadDir": true, "Getwd": true, "Args": true, "Exit": true, "Stderr": true, "Stdout": true, "Stdin": true,
	"O_RDONLY": true, "O_WRONLY": true, "O_RDWR": true, "O_APPEND": true, "O_CREATE": true, "O_EXCL": true, "O_SYNC": true, "O_TRUNC": true,
	"FileInfo": true, "FileMode": true, "File": true, "PathSeparator": true, "ErrNotExist": true, "ErrExist": true, "Environ": true,
}

// packages any reference to which is a file/system effect the generator must not have
var effectPkgs = map[string]bool{"os/exec": true, "syscall": true, "golang.org/x/sys/unix": true, "unsafe": false, "net": true, "net/http": true, "plugin": true}

// mutating members of io/ioutil
var ioutilMutating = map[string]bool{"WriteFile": true, "TempFile": true, "TempDir": true}

// the owners: the only functions allowed to contain a file-mutating reference, and what each may reference.
var g4Owners = map[string]map[string]bool{
	"derive.(*pkg).Print":  {"os.Create": true},
	"derive.(*pkg).Delete": {"os.Remove": true},
	"derive.newPackage":    {"os.OpenFile": true},
}

func runG4(r *Repo, rep *Report) {
	seen := map[string]bool{}
	for _, b := range r.bodies() {
		if b.Lit != nil {
			continue // literals are inspected as part of their owner (ast.Inspect below descends)
		}
		info := b.Pkg.TypesInfo
		ast.Inspect(b.Owner.Decl, func(n ast.Node) bool {
			id, ok := n.(*ast.Ident)
			if !ok {
				return true
			}
			o := info.Uses[id]
			if o == nil || o.Pkg() == nil {
				return true
			}
			path := o.Pkg().Path()
			ref := ""
			if _, isPkgName := o.(*types.PkgName); isPkgName {
				return true
			}
			switch {
			case path == "os" && o.Parent() == o.Pkg().Scope():
				if osReadOnly[o.Name()] {
					return true
				}
				ref = "os." + o.Name()
			case (path == "io/ioutil" || path == "os") && ioutilMutating[o.Name()]:
				ref = path + "." + o.Name()
			case effectPkgs[path]:
				ref = path + "." + o.Name()
			default:
				// methods of *os.File that write
				if fn, ok := o.(*types.Func); ok {
					if sig := fn.Type().(*types.Signature); sig.Recv() != nil && strings.HasSuffix(sig.Recv().Type().String(), "os.File") {
						switch fn.Name() {
						case "Close", "Name", "Stat", "Read", "Fd":
							return true
						}
						if _, isOwner := g4Owners[b.Name]; isOwner {
							return true // the owner of a handle may write through it
						}
						ref = "(*os.File)." + fn.Name()
					}
				}
				if ref == "" {
					return true
				}
			}
			allowed := g4Owners[b.Name][ref]
			if allowed {
				seen[b.Name+"|"+ref] = true
				rep.pass("G4")
				rep.sample(map[string]string{"rule": "G4 who-may-call", "site": r.pos(id.Pos()), "owner": b.Name, "effect": ref})
				return true
			}
			rep.fail(Finding{Rule: "G4", Key: fmt.Sprintf("G4|%s|%s", b.Name, ref), Where: []string{r.pos(id.Pos())},
				Msg: fmt.Sprintf("%s references %s: file-system/system effects are owned by (*pkg).Print (os.Create), (*pkg).Delete (os.Remove) and newPackage (os.OpenFile) only", b.Name, ref)})
			return true
		})
	}
	// every owner must still exist with its effect (vacuity + the later per-site checks rely on them)
	var owners []string
	for o := range g4Owners {
		owners = append(owners, o)
	}
	sort.Strings(owners)
	for _, o := range owners {
		for ref := range g4Owners[o] {
			if !seen[o+"|"+ref] {
				rep.fail(Finding{Rule: "G4", Key: fmt.Sprintf("G4|owner-missing|%s|%s", o, ref), Kind: "undecided",
					Msg: fmt.Sprintf("expected %s to perform %s; the ownership table no longer matches the code and must be re-confirmed", o, ref)})
			}
		}
	}
	// *os.File values must not leave the owners
	for _, b := range r.bodies() {
		if b.Lit != nil {
			continue
		}
		if _, isOwner := g4Owners[b.Name]; isOwner {
			continue
		}
		info := b.Pkg.TypesInfo
		ast.Inspect(b.Owner.Decl, func(n ast.Node) bool {
			e, ok := n.(ast.Expr)
			if !ok {
				return true
			}
			if t := info.TypeOf(e); t != nil && strings.HasSuffix(t.String(), "os.File") {
				if id, ok := e.(*ast.Ident); ok {
					if _, isType := info.Uses[id].(*types.TypeName); isType {
						return true
					}
					if _, isPkg := info.Uses[id].(*types.PkgName); isPkg {
						return true
					}
				}
				if sel, ok := e.(*ast.SelectorExpr); ok {
					if o := info.Uses[sel.Sel]; o != nil && o.Pkg() != nil && o.Pkg().Path() == "os" && osReadOnly[o.Name()] {
						if _, isVar := o.(*types.Var); isVar {
							return true // os.Stderr etc.
						}
					}
				}
				rep.fail(Finding{Rule: "G4", Key: fmt.Sprintf("G4|%s|os.File-value", b.Name), Where: []string{r.pos(e.Pos())},
					Msg: fmt.Sprintf("%s handles an *os.File value; file handles are confined to Print/Delete/newPackage", b.Name)})
				return false
			}
			return true
		})
	}
	g4Sites(r, rep)
}

// resolveLocal follows a local variable with exactly one assignment to its defining expression.
func resolveLocal(info *types.Info, root ast.Node, e ast.Expr) ast.Expr {
	for depth := 0; depth < 4; depth++ {
		id, ok := ast.Unparen(e).(*ast.Ident)
		if !ok {
			return e
		}
		v := info.Uses[id]
		if v == nil {
			return e
		}
		var defs []ast.Expr
		ast.Inspect(root, func(n ast.Node) bool {
			if as, ok := n.(*ast.AssignStmt); ok {
				for i, l := range as.Lhs {
					if lid, ok := l.(*ast.Ident); ok && (info.Defs[lid] == v || info.Uses[lid] == v) {
						if len(as.Rhs) == len(as.Lhs) {
							defs = append(defs, as.Rhs[i])
						} else {
							defs = append(defs, nil)
						}
					}
				}
			}
			return true
		})
		if len(defs) != 1 || defs[0] == nil {
			return e
		}
		e = defs[0]
	}
	return e
}

func g4Sites(r *Repo, rep *Report) {
	derive := r.ByName["derive"]
	info := derive.TypesInfo
	// the constant naming the derived file
	var derivedConst types.Object
	filenameFn := r.lookup("derive.(*pkg).Filename")
	if filenameFn == nil {
		rep.fail(Finding{Rule: "G4", Key: "G4|Filename-missing", Kind: "undecided", Msg: "(*pkg).Filename not found"})
		return
	}
	// Filename = filepath.Join(<dir>, <const>)
	okFilename := false
	if len(filenameFn.Decl.Body.List) == 1 {
		if ret, ok := filenameFn.Decl.Body.List[0].(*ast.ReturnStmt); ok && len(ret.Results) == 1 {
			if call, ok := ret.Results[0].(*ast.CallExpr); ok && isPkgFunc(callee(info, call), "path/filepath", "Join") && len(call.Args) >= 2 {
				last := call.Args[len(call.Args)-1]
				if id, ok := last.(*ast.Ident); ok {
					if c, ok := info.Uses[id].(*types.Const); ok && c.Val().Kind() == constant.String {
						derivedConst = c
						okFilename = true
					}
				}
			}
		}
	}
	if !okFilename {
		rep.fail(Finding{Rule: "G4", Key: "G4|Filename-shape", Where: []string{r.pos(filenameFn.Decl.Pos())},
			Msg: "(*pkg).Filename is no longer `filepath.Join(dir, <string constant>)`: the path written/removed cannot be tied to the derived-file constant"})
		return
	}
	rep.pass("G4")
	// the same constant must be what discovery compares file names against (writer and reader agree)
	uses := map[string]int{}
	for id, o := range info.Uses {
		if o == derivedConst {
			if fi := r.enclosing(derive, id.Pos()); fi != nil {
				uses[funcKey(fi.Fn)]++
			}
		}
	}
	for _, want := range []string{"derive.newFileInfos", "derive.(*finder).Visit"} {
		// (a visitor written as a function literal is looked up through its own body)
		if wfi := r.lookup(want); wfi != nil && uses[want] == 0 {
			for id, o := range info.Uses {
				if o == derivedConst && wfi.Decl.Body.Pos() <= id.Pos() && id.Pos() < wfi.Decl.Body.End() {
					uses[want]++
				}
			}
		}
		if uses[want] == 0 {
			rep.fail(Finding{Rule: "G4", Key: "G4|derivedFilename-agreement|" + want,
				Msg: fmt.Sprintf("%s no longer compares against the constant %s that (*pkg).Filename writes to: writer and reader of the derived file name disagree", want, derivedConst.Name())})
		} else {
			rep.pass("G4")
		}
	}
	isFilenameCall := func(root ast.Node, e ast.Expr) bool {
		e = resolveLocal(info, root, e)
		call, ok := ast.Unparen(e).(*ast.CallExpr)
		return ok && callee(info, call) == filenameFn.Fn
	}
	// Print: os.Create(pkg.Filename()); Delete: os.Remove(filename from Filename())
	for _, site := range []struct{ owner, fn string }{{"derive.(*pkg).Print", "Create"}, {"derive.(*pkg).Delete", "Remove"}} {
		fi := r.lookup(site.owner)
		if fi == nil {
			continue
		}
		n := 0
		ast.Inspect(fi.Decl, func(x ast.Node) bool {
			call, ok := x.(*ast.CallExpr)
			if !ok || !isPkgFunc(callee(info, call), "os", site.fn) {
				return true
			}
			n++
			if len(call.Args) == 1 && isFilenameCall(fi.Decl, call.Args[0]) {
				rep.pass("G4")
				rep.sample(map[string]string{"rule": "G4 path provenance", "site": r.pos(call.Pos()), "path": exprStr(call.Args[0]) + " <- (*pkg).Filename()"})
			} else {
				rep.fail(Finding{Rule: "G4", Key: "G4|path|" + site.owner, Where: []string{r.pos(call.Pos())},
					Msg: fmt.Sprintf("%s: os.%s is applied to %s, which is not (only) the result of (*pkg).Filename()", site.owner, site.fn, exprStr(call.Args[0]))})
			}
			return true
		})
	}
	// every open-for-write truncates
	for _, fi := range r.sortedFuncs() {
		pinfo := fi.Pkg.TypesInfo
		ast.Inspect(fi.Decl, func(x ast.Node) bool {
			call, ok := x.(*ast.CallExpr)
			if !ok || !isPkgFunc(callee(pinfo, call), "os", "OpenFile") || len(call.Args) != 3 {
				return true
			}
			tv := pinfo.Types[call.Args[1]]
			if tv.Value == nil {
				rep.fail(Finding{Rule: "G4", Key: "G4|openflags|" + funcKey(fi.Fn), Kind: "undecided", Where: []string{r.pos(call.Pos())},
					Msg: "os.OpenFile flag operand is not a constant; cannot decide whether the write truncates"})
				return true
			}
			flags, _ := constant.Int64Val(tv.Value)
			const oWRONLY, oRDWR, oAPPEND, oTRUNC = 0x1, 0x2, 0x400, 0x200
			if flags&(oWRONLY|oRDWR) != 0 && (flags&oTRUNC == 0 || flags&oAPPEND != 0) {
				rep.fail(Finding{Rule: "G4", Key: "G4|no-trunc|" + funcKey(fi.Fn), Where: []string{r.pos(call.Pos())},
					Msg: fmt.Sprintf("%s opens a file for writing without O_TRUNC (flags %s): a shorter rewrite leaves the tail of the old contents", funcKey(fi.Fn), exprStr(call.Args[1]))})
			} else {
				rep.pass("G4")
				rep.sample(map[string]string{"rule": "G4 truncating open", "site": r.pos(call.Pos()), "flags": exprStr(call.Args[1])})
			}
			return true
		})
	}
	g4Rewrite(r, rep)
}

// g4Rewrite: in newPackage the source rewrite is reachable only when a call name changed, and a change needs a flag.
func g4Rewrite(r *Repo, rep *Report) {
	fi := r.lookup("derive.newPackage")
	if fi == nil {
		rep.fail(Finding{Rule: "G4", Key: "G4|newPackage-missing", Kind: "undecided", Msg: "derive.newPackage not found"})
		return
	}
	info := fi.Pkg.TypesInfo
	_ = parents
	g := newGraph(fi.Decl.Body, mayReturnFn(info))
	{
		count := map[types.Object]int{}
		def := map[types.Object]ast.Expr{}
		ast.Inspect(fi.Decl.Body, func(n ast.Node) bool {
			if as, ok := n.(*ast.AssignStmt); ok && len(as.Lhs) == len(as.Rhs) {
				for k, l := range as.Lhs {
					if id, ok := l.(*ast.Ident); ok {
						if o := objOf(info, id); o != nil && types.Identical(o.Type(), types.Typ[types.Bool]) {
							count[o]++
							def[o] = as.Rhs[k]
						}
					}
				}
			}
			return true
		})
		for o, n := range count {
			if n == 1 {
				g4SingleDef[o] = def[o]
			}
		}
	}
	// find the OpenFile call and the bool variable guarding it
	var open *ast.CallExpr
	ast.Inspect(fi.Decl, func(x ast.Node) bool {
		if c, ok := x.(*ast.CallExpr); ok && isPkgFunc(callee(info, c), "os", "OpenFile") {
			open = c
		}
		return true
	})
	if open == nil {
		return // reported by owner-missing
	}
	// the guard: a boolean variable v tested by a condition that dominates the OpenFile call and whose "v is false" outcome
	// cannot reach the call within the same iteration (if changed { rewrite }  /  if !changed { continue }; rewrite)
	var guard types.Object
	var guardBlk *cfg.Block
	loopHead := func(b *cfg.Block) bool { return b.Kind == cfg.KindRangeLoop || b.Kind == cfg.KindForLoop }
	ob, _ := g.locate(open.Pos())
	for _, b := range g.Blocks {
		if len(b.Succs) != 2 || len(b.Nodes) == 0 || ob == nil || guard != nil {
			continue
		}
		cond, ok := b.Nodes[len(b.Nodes)-1].(ast.Expr)
		if !ok {
			continue
		}
		neg := false
		ce := ast.Unparen(cond)
		if u, ok := ce.(*ast.UnaryExpr); ok && u.Op == token.NOT {
			neg = true
			ce = ast.Unparen(u.X)
		}
		id, ok := ce.(*ast.Ident)
		if !ok {
			continue
		}
		v, ok := info.Uses[id].(*types.Var)
		if !ok || !types.Identical(v.Type(), types.Typ[types.Bool]) {
			continue
		}
		falseSucc := b.Succs[1]
		if neg {
			falseSucc = b.Succs[0]
		}
		if g.dominates(b, ob) && falseSucc != ob && !g.reachable([]*cfg.Block{falseSucc}, loopHead)[ob] {
			guard, guardBlk = v, b
		}
	}
	if guard == nil {
		rep.fail(Finding{Rule: "G4", Key: "G4|rewrite-unguarded", Where: []string{r.pos(open.Pos())},
			Msg: "newPackage: the source rewrite (os.OpenFile) is not inside `if <changed>`: user files may be rewritten when nothing was renamed"})
		return
	}
	rep.pass("G4")
	// the flag parameters
	var autoname, dedup types.Object
	sig := fi.Fn.Type().(*types.Signature)
	for i := 0; i < sig.Params().Len(); i++ {
		p := sig.Params().At(i)
		if types.Identical(p.Type(), types.Typ[types.Bool]) {
			if autoname == nil {
				autoname = p
			} else if dedup == nil {
				dedup = p
			}
		}
	}
	if autoname == nil || dedup == nil {
		// the flags live in a struct (receiver or argument): fields named after them
		autoname, dedup = nil, nil
		ast.Inspect(fi.Decl.Body, func(x ast.Node) bool {
			if sel, ok := x.(*ast.SelectorExpr); ok {
				if f, ok := info.Uses[sel.Sel].(*types.Var); ok && f.IsField() && types.Identical(f.Type(), types.Typ[types.Bool]) {
					switch f.Name() {
					case "autoname":
						autoname = f
					case "dedup":
						dedup = f
					}
				}
			}
			return true
		})
	}
	// every store guard=true must be (a) inside `if name != call.Name` and (b) after a no-return branch taken when neither flag is set
	nstores := 0
	ast.Inspect(fi.Decl, func(x ast.Node) bool {
		as, ok := x.(*ast.AssignStmt)
		if !ok {
			return true
		}
		for i, l := range as.Lhs {
			id, ok := l.(*ast.Ident)
			if !ok || (info.Uses[id] != guard && info.Defs[id] != guard) || i >= len(as.Rhs) {
				continue
			}
			tv := info.Types[as.Rhs[i]]
			if tv.Value != nil && tv.Value.Kind() == constant.Bool && !constant.BoolVal(tv.Value) {
				continue // changed := false
			}
			nstores++
			// (a) reachable only through the "differs" outcome of a comparison of two strings (the name returned by Add and the
			// call's name): if name != call.Name { … }  /  if name == call.Name { continue }
			okA := false
			sbA, _ := g.locate(as.Pos())
			for _, b := range g.Blocks {
				if len(b.Succs) != 2 || len(b.Nodes) == 0 || sbA == nil {
					continue
				}
				cond, ok := b.Nodes[len(b.Nodes)-1].(ast.Expr)
				if !ok {
					continue
				}
				// the edge on which two strings were found to differ: x != y taken, x == y not taken, also as a disjunct of a
				// condition that is not taken (if name == "" || name == call.Name { continue })
				for edge, truth := range []bool{true, false} {
					if !impliesStringsDiffer(info, cond, truth) {
						continue
					}
					other := b.Succs[1-edge]
					if g.dominates(b, sbA) && other != sbA && !g.reachable([]*cfg.Block{other}, loopHead)[sbA] {
						okA = true
					}
				}
			}
			// (b) a block that tests !autoname && !dedup (or equivalent) whose true branch cannot reach the store
			okB := false
			sb, _ := g.locate(as.Pos())
			for _, b := range g.Blocks {
				if len(b.Succs) != 2 || len(b.Nodes) == 0 {
					continue
				}
				cond, ok := b.Nodes[len(b.Nodes)-1].(ast.Expr)
				if !ok {
					continue
				}
				if isNeitherFlag(info, cond, autoname, dedup) && sb != nil && g.dominates(b, sb) {
					reach := g.reachable([]*cfg.Block{b.Succs[0]}, nil)
					if !reach[sb] {
						okB = true
					}
				}
			}
			if okA && okB {
				rep.pass("G4")
				rep.sample(map[string]string{"rule": "G4 rewrite needs a flag", "site": r.pos(as.Pos()), "guards": "name != call.Name; !autoname && !dedup => no return"})
			} else {
				rep.fail(Finding{Rule: "G4", Key: fmt.Sprintf("G4|changed-store|a=%v,b=%v", okA, okB), Where: []string{r.pos(as.Pos())},
					Msg: fmt.Sprintf("newPackage: `%s = true` is not guarded as required (inside `if name != call.Name`: %v; unreachable when neither -autoname nor -dedup is set: %v)", guard.Name(), okA, okB)})
			}
		}
		return true
	})
	g4ChangedReset(r, rep, fi, g, guard, guardBlk)
	if nstores == 0 {
		rep.fail(Finding{Rule: "G4", Key: "G4|changed-store|none", Kind: "undecided", Msg: "newPackage: no store to the rewrite guard found"})
	}
}

// g4SingleDef: boolean locals of newPackage that are defined exactly once (filled by g4Rewrite).
var g4SingleDef = map[types.Object]ast.Expr{}

// impliesStringsDiffer: the condition having this truth value implies that two non-constant strings differ.
func impliesStringsDiffer(info *types.Info, e ast.Expr, truth bool) bool {
	switch x := ast.Unparen(e).(type) {
	case *ast.UnaryExpr:
		if x.Op == token.NOT {
			return impliesStringsDiffer(info, x.X, !truth)
		}
	case *ast.BinaryExpr:
		switch x.Op {
		case token.LOR:
			if !truth {
				return impliesStringsDiffer(info, x.X, false) || impliesStringsDiffer(info, x.Y, false)
			}
		case token.LAND:
			if truth {
				return impliesStringsDiffer(info, x.X, true) || impliesStringsDiffer(info, x.Y, true)
			}
		case token.EQL, token.NEQ:
			if !types.Identical(info.TypeOf(x.X), types.Typ[types.String]) {
				return false
			}
			if tv, ok := info.Types[x.X]; ok && tv.Value != nil {
				return false
			}
			if tv, ok := info.Types[x.Y]; ok && tv.Value != nil {
				return false // a comparison with a constant ("" …) is not the comparison of the two names
			}
			return (x.Op == token.NEQ) == truth
		}
	}
	return false
}

// isNeitherFlag recognises `!a && !d`, `!d && !a`, `!(a || d)`.
func isNeitherFlag(info *types.Info, e ast.Expr, a, d types.Object) bool {
	if a == nil || d == nil {
		return false
	}
	// !allowed  with  allowed := a || d  defined once
	if u, ok := ast.Unparen(e).(*ast.UnaryExpr); ok && u.Op == token.NOT {
		if id, ok := ast.Unparen(u.X).(*ast.Ident); ok {
			if def := g4SingleDef[info.Uses[id]]; def != nil {
				return isNeitherFlag(info, &ast.UnaryExpr{Op: token.NOT, X: &ast.ParenExpr{X: def}}, a, d)
			}
		}
	}
	// a flag is a parameter, or a field read through a selector (pg.autoname)
	isVar := func(x ast.Expr, v types.Object) bool {
		switch y := ast.Unparen(x).(type) {
		case *ast.Ident:
			return info.Uses[y] == v
		case *ast.SelectorExpr:
			return info.Uses[y.Sel] == v
		}
		return false
	}
	isNot := func(x ast.Expr, v types.Object) bool {
		u, ok := ast.Unparen(x).(*ast.UnaryExpr)
		if !ok || u.Op != token.NOT {
			return false
		}
		return isVar(u.X, v)
	}
	switch x := ast.Unparen(e).(type) {
	case *ast.BinaryExpr:
		if x.Op == token.LAND {
			return (isNot(x.X, a) && isNot(x.Y, d)) || (isNot(x.X, d) && isNot(x.Y, a))
		}
	case *ast.UnaryExpr:
		if x.Op == token.NOT {
			if be, ok := ast.Unparen(x.X).(*ast.BinaryExpr); ok && be.Op == token.LOR {
				return (isVar(be.X, a) && isVar(be.Y, d)) || (isVar(be.X, d) && isVar(be.Y, a))
			}
		}
	}
	return false
}

// ---------------------------------------------------------------------------------------------
// G5 — AST mutation sites, parse mode, whole-file re-print
// ---------------------------------------------------------------------------------------------

func isAstType(t types.Type) bool {
	if t == nil {
		return false
	}
	if p, ok := t.(*types.Pointer); ok {
		t = p.Elem()
	}
	if s, ok := t.(*types.Slice); ok {
		return isAstType(s.Elem())
	}
	n, ok := t.(*types.Named)
	return ok && n.Obj().Pkg() != nil && n.Obj().Pkg().Path() == "go/ast"
}

var astFuncsAllowed = map[string]bool{"NewIdent": true, "Walk": true, "Inspect": true, "Print": true, "Fprint": true, "IsExported": true, "Unparen": true}

func runG5(r *Repo, rep *Report) {
	nmut := 0
	for _, fi := range r.sortedFuncs() {
		info := fi.Pkg.TypesInfo
		name := funcKey(fi.Fn)
		ast.Inspect(fi.Decl, func(x ast.Node) bool {
			switch s := x.(type) {
			case *ast.AssignStmt:
				for i, l := range s.Lhs {
					var base ast.Expr
					field := ""
					switch le := l.(type) {
					case *ast.SelectorExpr:
						if _, isField := info.Selections[le]; isField {
							base, field = le.X, le.Sel.Name
						}
					case *ast.IndexExpr:
						base, field = le.X, "[]"
					case *ast.StarExpr:
						base, field = le.X, "*"
					}
					if base == nil || !isAstType(info.TypeOf(base)) {
						continue
					}
					nmut++
					ok := false
					noPos := false
					if name == "derive.newPackage" && field == "Fun" && strings.HasSuffix(info.TypeOf(base).String(), "ast.CallExpr") && i < len(s.Rhs) {
						nameE, posE := replacementIdent(info, s.Rhs[i])
						// the new identifier must be the name returned by (*pkg).Add …
						if nameE != nil && g5FromAdd(r, fi, nameE) {
							// … and stand where the old one stood: NamePos: <the same call>.Fun.Pos()
							if posE != nil && (exprStr(posE) == exprStr(l)+".Pos()" || g5LocalIs(info, fi, posE, exprStr(l)+".Pos()")) {
								ok = true
							} else {
								noPos = true
							}
						}
					}
					if noPos {
						rep.fail(Finding{Rule: "G5", Key: fmt.Sprintf("G5|%s|store|%s|no-position", name, field), Where: []string{r.pos(s.Pos())},
							Msg: fmt.Sprintf("%s replaces the call identifier by one without the position of the identifier it replaces (%s): the printer then places comments that stood in front of the call behind the new name, so the rewritten file is not the gofmt formatting of the original with just the identifier substituted", name, exprStr(s.Rhs[i]))})
						continue
					}
					if ok {
						rep.pass("G5")
						rep.sample(map[string]string{"rule": "G5 AST store", "site": r.pos(s.Pos()), "store": exprStr(l) + " = " + exprStr(s.Rhs[i])})
					} else {
						rep.fail(Finding{Rule: "G5", Key: fmt.Sprintf("G5|%s|store|%s", name, field), Where: []string{r.pos(s.Pos())},
							Msg: fmt.Sprintf("%s mutates the user's syntax tree (%s): the only permitted store is `call.Expr.Fun = &ast.Ident{NamePos: call.Expr.Fun.Pos(), Name: <name returned by Add>}` in newPackage", name, exprStr(l))})
					}
				}
			case *ast.CallExpr:
				o := callee(info, s)
				if fn, ok := o.(*types.Func); ok && fn.Pkg() != nil {
					p := fn.Pkg().Path()
					if (p == "go/ast" && fn.Type().(*types.Signature).Recv() == nil && !astFuncsAllowed[fn.Name()]) || p == "golang.org/x/tools/go/ast/astutil" {
						rep.fail(Finding{Rule: "G5", Key: fmt.Sprintf("G5|%s|call|%s.%s", name, p, fn.Name()), Where: []string{r.pos(s.Pos())},
							Msg: fmt.Sprintf("%s calls %s.%s, which can alter the user's syntax tree", name, p, fn.Name())})
					}
				}
				// append onto an ast slice
				if b, ok := o.(*types.Builtin); ok && (b.Name() == "append" || b.Name() == "copy" || b.Name() == "delete") && len(s.Args) > 0 {
					if isAstType(info.TypeOf(s.Args[0])) {
						if sel, ok := s.Args[0].(*ast.SelectorExpr); ok {
							if _, isField := info.Selections[sel]; isField && isAstType(info.TypeOf(sel.X)) {
								rep.fail(Finding{Rule: "G5", Key: fmt.Sprintf("G5|%s|%s-ast", name, b.Name()), Where: []string{r.pos(s.Pos())},
									Msg: fmt.Sprintf("%s applies %s to a field of a syntax node (%s)", name, b.Name(), exprStr(s.Args[0]))})
							}
						}
					}
				}
			}
			return true
		})
	}
	if nmut == 0 {
		rep.fail(Finding{Rule: "G5", Key: "G5|vacuity", Kind: "undecided", Msg: "no AST store found at all; the rename site the rule is about has moved"})
	}
	// loader: comments must be parsed or the re-printed file loses them
	load := r.lookup("derive.load")
	if load == nil {
		rep.fail(Finding{Rule: "G5", Key: "G5|load-missing", Kind: "undecided", Msg: "derive.load not found"})
		return
	}
	info := load.Pkg.TypesInfo
	parseComments, allowErrors, errHook := false, false, false
	ast.Inspect(load.Decl, func(x ast.Node) bool {
		switch n := x.(type) {
		case *ast.KeyValueExpr:
			if k, ok := n.Key.(*ast.Ident); ok {
				tv := info.Types[n.Value]
				switch k.Name {
				case "ParserMode":
					if tv.Value != nil {
						v, _ := constant.Int64Val(tv.Value)
						parseComments = v&4 != 0 // parser.ParseComments
					}
				case "AllowErrors":
					allowErrors = tv.Value != nil && constant.BoolVal(tv.Value)
				}
			}
		case *ast.AssignStmt:
			for i, l := range n.Lhs {
				if sel, ok := l.(*ast.SelectorExpr); ok && i < len(n.Rhs) {
					tv := info.Types[n.Rhs[i]]
					switch sel.Sel.Name {
					case "ParserMode":
						if tv.Value != nil {
							v, _ := constant.Int64Val(tv.Value)
							parseComments = v&4 != 0
						}
					case "AllowErrors":
						allowErrors = tv.Value != nil && constant.BoolVal(tv.Value)
					case "Error":
						if _, isLit := n.Rhs[i].(*ast.FuncLit); isLit || !isNilIdent(info, n.Rhs[i]) {
							errHook = true
						}
					}
				}
			}
		}
		return true
	})
	check := func(ok bool, key, msg string) {
		if ok {
			rep.pass("G5")
		} else {
			rep.fail(Finding{Rule: "G5", Key: "G5|load|" + key, Where: []string{r.pos(load.Decl.Pos())}, Msg: msg})
		}
	}
	check(parseComments, "ParseComments", "derive.load does not parse comments (ParserMode lacks parser.ParseComments): a rewritten user file would lose every comment")
	check(allowErrors, "AllowErrors", "derive.load does not set AllowErrors: a stale or truncated derived.gen.go (or any not-yet-generated call) aborts loading")
	check(errHook, "TypeChecker.Error", "derive.load does not install a TypeChecker.Error hook: type errors from undefined derive calls are not tolerated")
	// format.Node is applied to the file's own *ast.File with the program's Fset, writing to the opened handle
	np := r.lookup("derive.newPackage")
	if np != nil {
		info := np.Pkg.TypesInfo
		found := false
		ast.Inspect(np.Decl, func(x ast.Node) bool {
			c, ok := x.(*ast.CallExpr)
			if !ok || !isPkgFunc(callee(info, c), "go/format", "Node") || len(c.Args) != 3 {
				return true
			}
			found = true
			okW := strings.HasSuffix(info.TypeOf(c.Args[0]).String(), "os.File") || strings.HasSuffix(info.TypeOf(c.Args[0]).String(), "bytes.Buffer")
			okF := strings.HasSuffix(info.TypeOf(c.Args[1]).String(), "token.FileSet")
			okN := strings.HasSuffix(info.TypeOf(c.Args[2]).String(), "ast.File")
			if okW && okF && okN {
				rep.pass("G5")
			} else {
				rep.fail(Finding{Rule: "G5", Key: "G5|format.Node-args", Where: []string{r.pos(c.Pos())},
					Msg: "newPackage: format.Node is not applied to (opened file or buffer, program Fset, the file's *ast.File): the rewrite is not a whole-file re-print"})
			}
			return true
		})
		g5SameFile(r, rep)
		if !found {
			rep.fail(Finding{Rule: "G5", Key: "G5|format.Node-missing", Where: []string{r.pos(np.Decl.Pos())},
				Msg: "newPackage no longer re-prints the renamed file with go/format.Node"})
		}
	}
}

// g5FromAdd: expression is the first result of pkg.Add(call) (through one local)
func g5FromAdd(r *Repo, fi *FuncInfo, e ast.Expr) bool {
	info := fi.Pkg.TypesInfo
	add := r.lookup("derive.(*pkg).Add")
	id, ok := ast.Unparen(e).(*ast.Ident)
	if !ok || add == nil {
		return false
	}
	v := info.Uses[id]
	found, other := false, false
	ast.Inspect(fi.Decl, func(n ast.Node) bool {
		as, ok := n.(*ast.AssignStmt)
		if !ok {
			return true
		}
		for i, l := range as.Lhs {
			lid, ok := l.(*ast.Ident)
			if !ok || (info.Defs[lid] != v && info.Uses[lid] != v) {
				continue
			}
			if i == 0 && len(as.Rhs) == 1 {
				if c, ok := as.Rhs[0].(*ast.CallExpr); ok && callee(info, c) == add.Fn {
					found = true
					continue
				}
			}
			other = true
		}
		return true
	})
	return found && !other
}

// ---------------------------------------------------------------------------------------------
// G10 — print-or-delete on every successful generation pass; stale derived file tolerated/excluded
// ---------------------------------------------------------------------------------------------

func runG10(r *Repo, rep *Report) { g10(r, rep, false) }

// g10PrintOrDelete: the part of G10 that is about generatePackage alone — every successful return has passed Print or Delete,
// chosen by HasContent (the premise of every property about emitted code).
func g10PrintOrDelete(r *Repo, rep *Report) { g10(r, rep, true) }

func g10(r *Repo, rep *Report, coreOnly bool) {
	fi := r.lookup("derive.(*program).generatePackage")
	if fi == nil {
		rep.fail(Finding{Rule: "G10", Key: "G10|generatePackage-missing", Kind: "undecided", Msg: "(*program).generatePackage not found"})
		return
	}
	info := fi.Pkg.TypesInfo
	g := newGraph(fi.Decl.Body, mayReturnFn(info))
	method := func(name string) *types.Func {
		if f := r.lookup("derive.(*pkg)." + name); f != nil {
			return f.Fn
		}
		return nil
	}
	gen, print, del, has := method("Generate"), method("Print"), method("Delete"), method("HasContent")
	if gen == nil || print == nil || del == nil || has == nil {
		rep.fail(Finding{Rule: "G10", Key: "G10|methods-missing", Kind: "undecided", Msg: "one of (*pkg).Generate/Print/Delete/HasContent not found"})
		return
	}
	callsTo := func(b *cfg.Block, fn *types.Func) bool {
		return blockHas(b, func(n ast.Node) bool {
			c, ok := n.(*ast.CallExpr)
			return ok && callee(info, c) == fn
		})
	}
	var genBlocks []*cfg.Block
	for _, b := range g.Blocks {
		if callsTo(b, gen) {
			genBlocks = append(genBlocks, b)
		}
	}
	if len(genBlocks) == 0 {
		rep.fail(Finding{Rule: "G10", Key: "G10|no-generate-call", Kind: "undecided", Msg: "generatePackage does not call (*pkg).Generate"})
		return
	}
	// success exits reachable from the function entry without passing a Print/Delete block
	// (every successful return, also one that skips generation altogether, must have rewritten or removed the file)
	stop := func(b *cfg.Block) bool { return callsTo(b, print) || callsTo(b, del) }
	reach := reachFirstIter(g, info, fi.Decl.Body, stop)
	// both are over-approximations of the feasible paths; a block counts only if both reach it
	byFacts := reachWithFacts(g, info, stop)
	for b := range reach {
		if !byFacts[b] {
			delete(reach, b)
		}
	}
	bad := false
	body := &Body{Pkg: fi.Pkg, Sig: fi.Fn.Type().(*types.Signature), Type: fi.Decl.Type}
	// a package without listed files has no directory (G26): returning at once is the only thing to do
	noFiles := map[*ast.ReturnStmt]bool{}
	ast.Inspect(fi.Decl.Body, func(n ast.Node) bool {
		ifs, ok := n.(*ast.IfStmt)
		if !ok || ifs.Else != nil {
			return true
		}
		be, ok := ast.Unparen(ifs.Cond).(*ast.BinaryExpr)
		if !ok || be.Op != token.EQL || exprStr(be.Y) != "0" {
			return true
		}
		c, ok := ast.Unparen(be.X).(*ast.CallExpr)
		if !ok || exprStr(c.Fun) != "len" || len(c.Args) != 1 {
			return true
		}
		if t := info.TypeOf(c.Args[0]); t == nil || !(strings.HasSuffix(t.String(), "ast.File") || strings.HasSuffix(t.String(), "derive.fileInfo")) {
			return true
		}
		for _, st := range ifs.Body.List {
			if ret, ok := st.(*ast.ReturnStmt); ok {
				noFiles[ret] = true
			}
		}
		return true
	})
	for b := range reach {
		for _, n := range b.Nodes {
			if ret, ok := n.(*ast.ReturnStmt); ok && returnsNilError(body, ret) {
				if noFiles[ret] {
					continue
				}
				bad = true
				rep.fail(Finding{Rule: "G10", Key: "G10|success-without-print-or-delete", Where: []string{r.pos(ret.Pos())},
					Msg: "generatePackage can return success without having written (Print) or removed (Delete) derived.gen.go on the way: the old file survives, so the result depends on what it held"})
			}
		}
		if len(b.Succs) == 0 && !bad {
			if len(b.Nodes) == 0 || func() bool { _, isRet := b.Nodes[len(b.Nodes)-1].(*ast.ReturnStmt); return !isRet }() {
				if !blockEndsNoReturn(info, b) {
					// falls off the end: only possible for functions without results
				}
			}
		}
	}
	if !bad {
		rep.pass("G10")
		rep.sample(map[string]string{"rule": "G10 must-pass-through", "entry": r.pos(genBlocks[0].Nodes[0].Pos()), "through": "(*pkg).Print | (*pkg).Delete", "exits": "every `return nil` after Generate"})
	}
	// Print under HasContent()==true, Delete under false
	okChoice := false
	for _, b := range g.Blocks {
		if len(b.Succs) != 2 || len(b.Nodes) == 0 {
			continue
		}
		cond, ok := b.Nodes[len(b.Nodes)-1].(ast.Expr)
		if !ok {
			continue
		}
		neg := false
		ce := ast.Unparen(cond)
		if u, ok := ce.(*ast.UnaryExpr); ok && u.Op == token.NOT {
			neg = true
			ce = ast.Unparen(u.X)
		}
		c, ok := ce.(*ast.CallExpr)
		if !ok || callee(info, c) != has {
			continue
		}
		t, f := b.Succs[0], b.Succs[1]
		if neg {
			t, f = f, t
		}
		rt := g.reachable([]*cfg.Block{t}, func(x *cfg.Block) bool { return x == f })
		rf := g.reachable([]*cfg.Block{f}, func(x *cfg.Block) bool { return x == t })
		printOnTrue, delOnFalse, printOnFalse, delOnTrue := false, false, false, false
		// only look at the branch-exclusive regions (blocks dominated by the branch target)
		for x := range rt {
			if g.dominates(t, x) {
				printOnTrue = printOnTrue || callsTo(x, print)
				delOnTrue = delOnTrue || callsTo(x, del)
			}
		}
		for x := range rf {
			if g.dominates(f, x) {
				delOnFalse = delOnFalse || callsTo(x, del)
				printOnFalse = printOnFalse || callsTo(x, print)
			}
		}
		if printOnTrue && delOnFalse && !printOnFalse && !delOnTrue {
			okChoice = true
		}
	}
	if okChoice {
		rep.pass("G10")
	} else {
		rep.fail(Finding{Rule: "G10", Key: "G10|choice", Where: []string{r.pos(fi.Decl.Pos())},
			Msg: "generatePackage does not choose Print when HasContent() and Delete otherwise: an empty result must remove the old derived.gen.go, a non-empty one must replace it"})
	}
	if coreOnly {
		return
	}
	// hasContent is set by P only
	prPkg := r.ByName["derive"]
	pinfo := prPkg.TypesInfo
	for _, f := range r.sortedFuncs() {
		if f.Pkg != prPkg {
			continue
		}
		ast.Inspect(f.Decl, func(x ast.Node) bool {
			as, ok := x.(*ast.AssignStmt)
			if !ok {
				return true
			}
			for _, l := range as.Lhs {
				if sel, ok := l.(*ast.SelectorExpr); ok && sel.Sel.Name == "hasContent" {
					if s, ok := pinfo.Selections[sel]; ok && s.Kind() == types.FieldVal {
						if funcKey(f.Fn) == "derive.(*printer).P" {
							rep.pass("G10")
						} else {
							rep.fail(Finding{Rule: "G10", Key: "G10|hasContent-store|" + funcKey(f.Fn), Where: []string{r.pos(as.Pos())},
								Msg: funcKey(f.Fn) + " writes printer.hasContent; only P may set it (it decides between rewriting and deleting derived.gen.go)"})
						}
					}
				}
			}
			return true
		})
	}
	// the HasContent accessor returns the field
	if hc := r.lookup("derive.(*printer).HasContent"); hc != nil {
		ok := false
		if len(hc.Decl.Body.List) == 1 {
			if ret, isRet := hc.Decl.Body.List[0].(*ast.ReturnStmt); isRet && len(ret.Results) == 1 {
				if sel, isSel := ret.Results[0].(*ast.SelectorExpr); isSel && sel.Sel.Name == "hasContent" {
					ok = true
				}
			}
		}
		if ok {
			rep.pass("G10")
		} else {
			rep.fail(Finding{Rule: "G10", Key: "G10|HasContent-shape", Where: []string{r.pos(hc.Decl.Pos())}, Msg: "(*printer).HasContent no longer simply returns the hasContent flag set by P"})
		}
	}
	g10Discovery(r, rep)
}

// g10Discovery: the derived file is excluded from call discovery; names defined in it are not reserved; nil token.File tolerated.
func g10Discovery(r *Repo, rep *Report) {
	derive := r.ByName["derive"]
	info := derive.TypesInfo
	var derivedConst types.Object
	for id, o := range info.Defs {
		if c, ok := o.(*types.Const); ok && id.Name == "derivedFilename" {
			derivedConst = c
		}
	}
	if derivedConst == nil {
		// fall back: the constant Filename uses
		if fn := r.lookup("derive.(*pkg).Filename"); fn != nil {
			ast.Inspect(fn.Decl, func(x ast.Node) bool {
				if id, ok := x.(*ast.Ident); ok {
					if c, ok := info.Uses[id].(*types.Const); ok {
						derivedConst = c
					}
				}
				return true
			})
		}
	}
	if derivedConst == nil {
		rep.fail(Finding{Rule: "G10", Key: "G10|derived-const-missing", Kind: "undecided", Msg: "cannot find the constant naming the derived file"})
		return
	}
	isDerivedCmp := func(e ast.Expr) (neg bool, ok bool) {
		be, isB := ast.Unparen(e).(*ast.BinaryExpr)
		if !isB || (be.Op != token.EQL && be.Op != token.NEQ) {
			return false, false
		}
		for _, side := range []ast.Expr{be.X, be.Y} {
			if id, isId := ast.Unparen(side).(*ast.Ident); isId && info.Uses[id] == derivedConst {
				return be.Op == token.NEQ, true
			}
		}
		return false, false
	}
	// generic: in fn, the statement matching `target` must not be reachable from the "is derived file" outcome of the comparison
	excluded := func(fnKey string, target func(ast.Node) bool, what, key string) {
		fi := r.lookup(fnKey)
		if fi == nil {
			rep.fail(Finding{Rule: "G10", Key: "G10|" + key + "|missing", Kind: "undecided", Msg: fnKey + " not found"})
			return
		}
		g := newGraph(fi.Decl.Body, mayReturnFn(info))
		var targets []*cfg.Block
		for _, b := range g.Blocks {
			if blockHas(b, target) {
				targets = append(targets, b)
			}
		}
		if len(targets) == 0 {
			rep.fail(Finding{Rule: "G10", Key: "G10|" + key + "|target-missing", Kind: "undecided", Msg: fnKey + ": " + what + " not found"})
			return
		}
		found := false
		for _, b := range g.Blocks {
			if len(b.Succs) != 2 || len(b.Nodes) == 0 {
				continue
			}
			cond, ok := b.Nodes[len(b.Nodes)-1].(ast.Expr)
			if !ok {
				continue
			}
			neg, isCmp := isDerivedCmp(cond)
			if !isCmp {
				continue
			}
			derivedSucc := b.Succs[0]
			if neg {
				derivedSucc = b.Succs[1]
			}
			reach := g.reachable([]*cfg.Block{derivedSucc}, func(x *cfg.Block) bool {
				return x.Kind == cfg.KindRangeLoop || x.Kind == cfg.KindForLoop || x.Kind == cfg.KindForPost
			})
			allDom, anyReach := true, false
			for _, t := range targets {
				if !g.dominates(b, t) {
					allDom = false
				}
				if reach[t] {
					anyReach = true
				}
			}
			if allDom && !anyReach {
				found = true
			}
		}
		if found {
			rep.pass("G10")
			rep.sample(map[string]string{"rule": "G10 derived file excluded", "function": fnKey, "excluded": what})
		} else {
			rep.fail(Finding{Rule: "G10", Key: "G10|" + key, Where: []string{r.pos(fi.Decl.Pos())},
				Msg: fnKey + ": " + what + " is reachable for " + derivedConst.Name() + " (the previous output): regeneration would depend on the old derived file"})
		}
	}
	g10NoSkip(r, rep, derivedConst)
	excluded("derive.newFileInfos", func(n ast.Node) bool {
		c, ok := n.(*ast.CallExpr)
		if !ok {
			return false
		}
		if b, ok := callee(info, c).(*types.Builtin); ok && b.Name() == "append" && len(c.Args) > 0 {
			return strings.Contains(info.TypeOf(c.Args[0]).String(), "fileInfo")
		}
		return false
	}, "collecting calls from a file (append to the fileInfo list)", "derived-file-scanned")
	excluded("derive.(*finder).Visit", func(n ast.Node) bool {
		as, ok := n.(*ast.AssignStmt)
		if !ok {
			return false
		}
		for _, l := range as.Lhs {
			if ix, ok := l.(*ast.IndexExpr); ok {
				if isFuncNames(ix.X) {
					return true
				}
			}
		}
		return false
	}, "reserving the callee name (funcNames insert)", "derived-names-reserved")
	// and names resolved into the derived file are queued for regeneration
	visit := r.lookup("derive.(*finder).Visit")
	if visit != nil {
		// on every path from the "is the derived file" outcome of the comparison with derivedFilename to a return, the call
		// is appended to a list of the finder (must-pass-through on the control-flow graph)
		isQueue := func(n ast.Node) bool {
			as, ok := n.(*ast.AssignStmt)
			if !ok || len(as.Lhs) != 1 || len(as.Rhs) != 1 {
				return false
			}
			c, ok := as.Rhs[0].(*ast.CallExpr)
			if !ok || exprStr(c.Fun) != "append" || len(c.Args) != 2 {
				return false
			}
			switch as.Lhs[0].(type) {
			case *ast.SelectorExpr, *ast.Ident:
				return exprStr(c.Args[0]) == exprStr(as.Lhs[0])
			}
			return false
		}
		queued := false
		vg := newGraph(visit.Decl.Body, mayReturnFn(info))
		for _, b := range vg.Blocks {
			if len(b.Succs) != 2 || len(b.Nodes) == 0 {
				continue
			}
			cond, ok := b.Nodes[len(b.Nodes)-1].(ast.Expr)
			if !ok {
				continue
			}
			neg, isCmp := isDerivedCmp(cond)
			if !isCmp {
				continue
			}
			derivedSucc := b.Succs[0]
			if neg {
				derivedSucc = b.Succs[1]
			}
			reach := vg.reachable([]*cfg.Block{derivedSucc}, func(x *cfg.Block) bool { return blockHas(x, isQueue) })
			escapes := false
			for x := range reach {
				if len(x.Succs) == 0 {
					escapes = true // a return (or the end of the function) without having queued the call
				}
			}
			if blockHas(derivedSucc, isQueue) {
				escapes = false
			}
			if !escapes {
				queued = true
			}
		}
		if queued {
			rep.pass("G10")
		} else {
			rep.fail(Finding{Rule: "G10", Key: "G10|derived-not-queued", Where: []string{r.pos(visit.Decl.Pos())}, Msg: "(*finder).Visit no longer queues calls that resolve into the derived file for regeneration"})
		}
	}
	// nil token.File tolerated: file.Name() dominated by a nil test that leaves
	nfi := r.lookup("derive.newFileInfos")
	if nfi != nil {
		g := newGraph(nfi.Decl.Body, mayReturnFn(info))
		ok := true
		n := 0
		inspectOwn(nfi.Decl.Body, func(x ast.Node) bool {
			c, isCall := x.(*ast.CallExpr)
			if !isCall {
				return true
			}
			sel, isSel := c.Fun.(*ast.SelectorExpr)
			if !isSel || !strings.HasSuffix(fmt.Sprint(info.TypeOf(sel.X)), "token.File") {
				return true
			}
			recv, isId := sel.X.(*ast.Ident)
			if !isId {
				return true
			}
			n++
			v := info.Uses[recv]
			// some dominating block tests v == nil and its true branch cannot reach the use
			ub, _ := g.locate(c.Pos())
			guarded := false
			for _, b := range g.Blocks {
				if len(b.Succs) != 2 || len(b.Nodes) == 0 || ub == nil {
					continue
				}
				cond, isE := b.Nodes[len(b.Nodes)-1].(ast.Expr)
				if !isE {
					continue
				}
				if op, isCmp := nilCompare(info, cond, v); isCmp && g.dominates(b, ub) {
					nilSucc := b.Succs[0]
					if op == token.NEQ {
						nilSucc = b.Succs[1]
					}
					reach := g.reachable([]*cfg.Block{nilSucc}, func(x *cfg.Block) bool { return x.Kind == cfg.KindRangeLoop || x.Kind == cfg.KindForLoop })
					if !reach[ub] {
						guarded = true
					}
				}
			}
			if !guarded {
				ok = false
				rep.fail(Finding{Rule: "G10", Key: "G10|nil-token-file", Where: []string{r.pos(c.Pos())},
					Msg: "newFileInfos dereferences the token.File of a package file without a nil test: an unparsable (truncated) derived.gen.go crashes the run"})
			}
			return true
		})
		if ok && n > 0 {
			rep.pass("G10")
		}
	}
}

// replacementIdent recognises the two ways of building the replacement identifier: ast.NewIdent(name) (no position) and
// &ast.Ident{NamePos: pos, Name: name}; it returns the name expression and the position expression (nil if none).
func replacementIdent(info *types.Info, e ast.Expr) (nameE, posE ast.Expr) {
	if c, ok := e.(*ast.CallExpr); ok && isPkgFunc(callee(info, c), "go/ast", "NewIdent") && len(c.Args) == 1 {
		return c.Args[0], nil
	}
	u, ok := e.(*ast.UnaryExpr)
	if !ok || u.Op != token.AND {
		return nil, nil
	}
	cl, ok := u.X.(*ast.CompositeLit)
	if !ok || !strings.HasSuffix(exprStr(cl.Type), "ast.Ident") {
		return nil, nil
	}
	for _, el := range cl.Elts {
		kv, ok := el.(*ast.KeyValueExpr)
		if !ok {
			return nil, nil
		}
		switch exprStr(kv.Key) {
		case "Name":
			nameE = kv.Value
		case "NamePos":
			posE = kv.Value
		default:
			return nil, nil // Obj etc.: not a plain identifier
		}
	}
	return nameE, posE
}

// g10DeleteRemoves — "when no derive calls remain the file is removed", whatever the file holds (the complete previous output,
// or any remnant of an interrupted write, including an empty file): in (*pkg).Delete every return is (a) the result of
// os.Remove on the derived file's path, (b) `nil` on a path that established os.IsNotExist for the error of looking the file
// up, or (c) a non-nil error. A `return nil` on any other path leaves a file behind that a from-scratch run would not have.
func g10DeleteRemoves(r *Repo, rep *Report) {
	fi := r.lookup("derive.(*pkg).Delete")
	if fi == nil {
		rep.fail(Finding{Rule: "G10", Key: "G10|delete|missing", Kind: "undecided", Msg: "(*pkg).Delete not found"})
		return
	}
	info := fi.Pkg.TypesInfo
	g := newGraph(fi.Decl.Body, func(*ast.CallExpr) bool { return true })
	isOS := func(e ast.Expr, name string) bool {
		c, ok := ast.Unparen(e).(*ast.CallExpr)
		if !ok {
			return false
		}
		fn, ok := callee(info, c).(*types.Func)
		return ok && fn.Pkg() != nil && fn.Pkg().Path() == "os" && fn.Name() == name
	}
	type state struct {
		b        *cfg.Block
		notExist bool
		errNN    bool
	}
	seen := map[state]bool{}
	returns, bad := 0, false
	var dfs func(s state)
	dfs = func(s state) {
		if seen[s] {
			return
		}
		seen[s] = true
		for _, n := range s.b.Nodes {
			ret, ok := n.(*ast.ReturnStmt)
			if !ok || len(ret.Results) != 1 {
				continue
			}
			returns++
			res := ast.Unparen(ret.Results[0])
			switch {
			case isOS(res, "Remove"):
			case s.notExist:
			default:
				if id, ok := res.(*ast.Ident); ok && id.Name == "nil" {
					bad = true
					rep.fail(Finding{Rule: "G10", Key: "G10|delete|kept", Where: []string{r.pos(ret.Pos())},
						Msg: "(*pkg).Delete can return nil without having removed the derived file although the file exists (return at " + r.pos(ret.Pos()) + " is not behind os.IsNotExist): a derived.gen.go that a from-scratch run would not leave behind — for example the remnant of an interrupted write after the last derive call was removed — stays in the package"})
				}
				// anything else is an error value (fmt.Errorf, err): the run fails loudly
			}
		}
		if len(s.b.Succs) == 2 {
			var cond ast.Expr
			if ifs, ok := s.b.Succs[0].Stmt.(*ast.IfStmt); ok && s.b.Succs[0].Kind == cfg.KindIfThen {
				cond = ifs.Cond
			}
			// the "it is there" outcome of `err == nil` / `err != nil` is not a not-exist outcome; `!os.IsNotExist(err)` swaps
			negated := false
			if cond != nil {
				if u, isU := ast.Unparen(cond).(*ast.UnaryExpr); isU && u.Op == token.NOT {
					negated = true
					cond = u.X
				}
			}
			for i, succ := range s.b.Succs {
				if negated {
					i = 1 - i
				}
				ne := s.notExist
				if cond != nil && i == 0 && (isOS(cond, "IsNotExist") || isErrNotExist(info, cond)) {
					ne = true
				}
				dfs(state{succ, ne, s.errNN})
			}
			return
		}
		for _, succ := range s.b.Succs {
			dfs(state{succ, s.notExist, s.errNN})
		}
	}
	if e := g.entry(); e != nil {
		dfs(state{e, false, false})
	}
	rep.analysed("delete_returns", returns)
	if returns < 2 {
		rep.fail(Finding{Rule: "G10", Key: "G10|delete|floor", Kind: "undecided", Where: []string{r.pos(fi.Decl.Pos())}, Msg: "fewer return statements in (*pkg).Delete than confirmed by hand"})
		return
	}
	if !bad {
		rep.pass("G10")
	}
}

// isFuncNames: the set of called names a file contributes to the reserved set — the finder's field, or a local of the
// function that finds the calls, of that name.
func isFuncNames(e ast.Expr) bool {
	switch x := ast.Unparen(e).(type) {
	case *ast.SelectorExpr:
		return x.Sel.Name == "funcNames"
	case *ast.Ident:
		return x.Name == "funcNames"
	}
	return false
}

// isErrNotExist: errors.Is(err, fs.ErrNotExist) / errors.Is(err, os.ErrNotExist) — what os.IsNotExist tests, and more
// (wrapped errors).
func isErrNotExist(info *types.Info, e ast.Expr) bool {
	c, ok := ast.Unparen(e).(*ast.CallExpr)
	if !ok || !isPkgFunc(callee(info, c), "errors", "Is") || len(c.Args) != 2 {
		return false
	}
	sel, ok := ast.Unparen(c.Args[1]).(*ast.SelectorExpr)
	if !ok || sel.Sel.Name != "ErrNotExist" {
		return false
	}
	v, ok := info.Uses[sel.Sel].(*types.Var)
	return ok && v.Pkg() != nil && (v.Pkg().Path() == "io/fs" || v.Pkg().Path() == "os")
}

// g23UnresolvedReported — C09: a call goderive cannot generate a function for is reported with a non-zero exit. In
// generatePackage a nil error may be returned only on paths that established that no call is left undefined: behind the true
// edge of `len(U) == 0`, or the false edge of `len(U) > 0` / `len(U) != 0`, where U is the package's list of undefined calls, a
// slice built from it, or the string joined from that slice. A conjunction with anything else on the reporting branch
// (`len(undefined) > 0 && !generated`) lets a run end successfully with calls that were never generated.
func g23UnresolvedReported(r *Repo, rep *Report) {
	fi := r.lookup("derive.(*program).generatePackage")
	if fi == nil {
		rep.fail(Finding{Rule: "G23", Key: "G23|unresolved|missing", Kind: "undecided", Msg: "(*program).generatePackage not found"})
		return
	}
	info := fi.Pkg.TypesInfo
	// U: objects that stand for the undefined calls
	undef := map[types.Object]bool{}
	isUndefExpr := func(e ast.Expr) bool {
		found := false
		ast.Inspect(e, func(n ast.Node) bool {
			switch x := n.(type) {
			case *ast.SelectorExpr:
				if x.Sel.Name == "undefined" {
					found = true
				}
			case *ast.Ident:
				if undef[info.Uses[x]] {
					found = true
				}
			}
			return true
		})
		return found
	}
	for changed := true; changed; {
		changed = false
		ast.Inspect(fi.Decl.Body, func(n ast.Node) bool {
			as, ok := n.(*ast.AssignStmt)
			if !ok || len(as.Lhs) != len(as.Rhs) {
				return true
			}
			for i, l := range as.Lhs {
				id, ok := l.(*ast.Ident)
				if !ok {
					continue
				}
				o := objOf(info, id)
				if o != nil && !undef[o] && isUndefExpr(as.Rhs[i]) {
					undef[o] = true
					changed = true
				}
			}
			return true
		})
	}
	lenOfU := func(e ast.Expr) bool {
		c, ok := ast.Unparen(e).(*ast.CallExpr)
		return ok && exprStr(c.Fun) == "len" && len(c.Args) == 1 && isUndefExpr(c.Args[0])
	}
	isZero := func(e ast.Expr) bool {
		tv, ok := info.Types[e]
		return ok && tv.Value != nil && tv.Value.String() == "0"
	}
	// resolved: cond with the given truth value establishes that nothing is undefined
	var resolved func(e ast.Expr, truth bool) bool
	resolved = func(e ast.Expr, truth bool) bool {
		switch x := ast.Unparen(e).(type) {
		case *ast.UnaryExpr:
			if x.Op == token.NOT {
				return resolved(x.X, !truth)
			}
		case *ast.BinaryExpr:
			switch x.Op {
			case token.LAND:
				if truth {
					return resolved(x.X, true) || resolved(x.Y, true)
				}
				return false
			case token.LOR:
				if !truth {
					return resolved(x.X, false) || resolved(x.Y, false)
				}
				return false
			case token.EQL:
				// a package without files has no calls at all
				if c, ok := ast.Unparen(x.X).(*ast.CallExpr); ok && truth && isZero(x.Y) && exprStr(c.Fun) == "len" && len(c.Args) == 1 {
					if t := info.TypeOf(c.Args[0]); t != nil && (strings.HasSuffix(t.String(), "ast.File") || strings.HasSuffix(t.String(), "derive.fileInfo")) {
						return true
					}
				}
				// U == "" for the joined text of the undefined calls: empty exactly when there is none
				if truth && ((isUndefExpr(x.X) && isEmptyString(info, x.Y)) || (isUndefExpr(x.Y) && isEmptyString(info, x.X))) {
					return true
				}
				return truth && ((lenOfU(x.X) && isZero(x.Y)) || (lenOfU(x.Y) && isZero(x.X)))
			case token.NEQ, token.GTR:
				if x.Op == token.NEQ && !truth && ((isUndefExpr(x.X) && isEmptyString(info, x.Y)) || (isUndefExpr(x.Y) && isEmptyString(info, x.X))) {
					return true
				}
				return !truth && lenOfU(x.X) && isZero(x.Y)
			}
		}
		return false
	}
	g := newGraph(fi.Decl.Body, func(*ast.CallExpr) bool { return true })
	type state struct {
		b  *cfg.Block
		ok bool
	}
	seen := map[state]bool{}
	nilReturns, bad := 0, false
	var dfs func(s state)
	dfs = func(s state) {
		if seen[s] {
			return
		}
		seen[s] = true
		for _, n := range s.b.Nodes {
			ret, isRet := n.(*ast.ReturnStmt)
			if !isRet || len(ret.Results) != 1 {
				continue
			}
			if id, isID := ast.Unparen(ret.Results[0]).(*ast.Ident); isID && id.Name == "nil" {
				nilReturns++
				if !s.ok && !bad {
					bad = true
					rep.fail(Finding{Rule: "G23", Key: "G23|unresolved|success-with-undefined-calls", Where: []string{r.pos(ret.Pos())},
						Msg: "generatePackage can return nil (exit 0) on a path that has not established that no derive call is left undefined (return at " + r.pos(ret.Pos()) + "): a call whose argument types never become known — next to any call that can be generated — is logged as `could not yet generate` and then forgotten; the package is left without the function and goderive reports success"})
				}
			}
		}
		if len(s.b.Succs) == 2 {
			var cond ast.Expr
			if ifs, isIf := s.b.Succs[0].Stmt.(*ast.IfStmt); isIf && s.b.Succs[0].Kind == cfg.KindIfThen {
				cond = ifs.Cond
			}
			for i, succ := range s.b.Succs {
				ok := s.ok
				if cond != nil && resolved(cond, i == 0) {
					ok = true
				}
				dfs(state{succ, ok})
			}
			return
		}
		for _, succ := range s.b.Succs {
			// entering the next pass forgets what the previous one established
			ok := s.ok
			if succ.Kind == cfg.KindForLoop || succ.Kind == cfg.KindForBody {
				ok = false
			}
			dfs(state{succ, ok})
		}
	}
	if e := g.entry(); e != nil {
		dfs(state{e, false})
	}
	rep.analysed("generatePackage_nil_returns", nilReturns)
	if nilReturns == 0 {
		rep.fail(Finding{Rule: "G23", Key: "G23|unresolved|floor", Kind: "undecided", Where: []string{r.pos(fi.Decl.Pos())}, Msg: "no `return nil` found in generatePackage"})
		return
	}
	if !bad {
		rep.pass("G23")
	}
}

// g26DirectoryKnown — the derived file's path is filepath.Join(pkg.fullpath, derivedFilename) and fullpath is the directory of the
// package's first listed file. A package without listed files (a directory that holds nothing but a stale derived.gen.go, which
// the loader hides) has no directory: Print/Delete would then address `derived.gen.go` relative to the working directory — the
// file of another package. In generatePackage every call of (*pkg).Print and (*pkg).Delete must be dominated by a guard that
// leaves the function when the package has no files (`len(….Files) == 0` / `len(fileInfos) == 0` with a returning body).
func g26DirectoryKnown(r *Repo, rep *Report) {
	fi := r.lookup("derive.(*program).generatePackage")
	if fi == nil {
		rep.fail(Finding{Rule: "G26", Key: "G26|directory|missing", Kind: "undecided", Msg: "(*program).generatePackage not found"})
		return
	}
	info := fi.Pkg.TypesInfo
	g := newGraph(fi.Decl.Body, func(*ast.CallExpr) bool { return true })
	var guards []*ast.IfStmt
	ast.Inspect(fi.Decl.Body, func(n ast.Node) bool {
		ifs, ok := n.(*ast.IfStmt)
		if !ok || ifs.Else != nil || !stmtsTerminate(ifs.Body.List) {
			return true
		}
		be, ok := ast.Unparen(ifs.Cond).(*ast.BinaryExpr)
		if !ok || be.Op != token.EQL || exprStr(be.Y) != "0" {
			return true
		}
		c, ok := ast.Unparen(be.X).(*ast.CallExpr)
		if !ok || exprStr(c.Fun) != "len" || len(c.Args) != 1 {
			return true
		}
		t := info.TypeOf(c.Args[0])
		if t == nil {
			return true
		}
		ts := t.String()
		if strings.HasSuffix(ts, "ast.File") || strings.HasSuffix(ts, "derive.fileInfo") {
			guards = append(guards, ifs)
		}
		return true
	})
	n, bad := 0, false
	ast.Inspect(fi.Decl.Body, func(m ast.Node) bool {
		call, ok := m.(*ast.CallExpr)
		if !ok {
			return true
		}
		fn, ok := callee(info, call).(*types.Func)
		if !ok || (funcKey(fn) != "derive.(*pkg).Print" && funcKey(fn) != "derive.(*pkg).Delete") {
			return true
		}
		n++
		dominated := false
		for _, gd := range guards {
			if g.posDominates(gd.Cond.Pos(), call.Pos()) {
				dominated = true
			}
		}
		if !dominated {
			bad = true
			rep.fail(Finding{Rule: "G26", Key: "G26|directory|" + fn.Name() + "-without-files", Where: []string{r.pos(call.Pos())},
				Msg: "generatePackage can reach (*pkg)." + fn.Name() + " for a package without listed files: its directory is unknown, so the path is `derived.gen.go` relative to the working directory and the derived file of whatever package lives there is overwritten or deleted (goderive ./sub, where sub holds only a stale derived.gen.go, deletes ./derived.gen.go)"})
		}
		return true
	})
	rep.analysed("print_delete_sites", n)
	if n < 2 {
		rep.fail(Finding{Rule: "G26", Key: "G26|directory|floor", Kind: "undecided", Where: []string{r.pos(fi.Decl.Pos())}, Msg: "fewer Print/Delete calls in generatePackage than confirmed by hand"})
		return
	}
	if !bad {
		rep.pass("G26")
	}
}

// g4PrintWrites — every successful return of (*pkg).Print has (re)written derived.gen.go, or has established that the file on
// disk already holds exactly the new content. The only accepted evidence for the latter is bytes.Equal between the *whole* file
// (os.ReadFile / ioutil.ReadFile / io.ReadAll) and the rendered content, directly in the guarding condition or in a helper it
// calls; a comparison after a bounded read (io.ReadFull into a buffer of the new length, Read) accepts a longer file that merely
// starts with the new content — the stale tail of the previous output survives.
func g4PrintWrites(r *Repo, rep *Report) {
	fi := r.lookup("derive.(*pkg).Print")
	if fi == nil {
		rep.fail(Finding{Rule: "G4", Key: "G4|print-writes|missing", Kind: "undecided", Msg: "(*pkg).Print not found"})
		return
	}
	info := fi.Pkg.TypesInfo
	isOS := func(n ast.Node, pkg string, names ...string) bool {
		c, ok := n.(*ast.CallExpr)
		if !ok {
			return false
		}
		fn, ok := callee(info, c).(*types.Func)
		if !ok || fn.Pkg() == nil || fn.Pkg().Path() != pkg {
			return false
		}
		for _, nm := range names {
			if fn.Name() == nm {
				return true
			}
		}
		return false
	}
	// wholeFileEqual: the expression establishes equality with the whole file
	var wholeFileEqual func(info *types.Info, body ast.Node, e ast.Expr, depth int) (bool, string)
	wholeFileEqual = func(info *types.Info, body ast.Node, e ast.Expr, depth int) (bool, string) {
		ok, why := false, "the condition that skips the write is not a comparison of the whole file with the new content"
		ast.Inspect(e, func(n ast.Node) bool {
			c, isCall := n.(*ast.CallExpr)
			if !isCall {
				return true
			}
			fn, _ := callee(info, c).(*types.Func)
			if fn == nil {
				return true
			}
			if fn.Pkg() != nil && fn.Pkg().Path() == "bytes" && fn.Name() == "Equal" {
				// one operand must come from a whole-file read in this body
				whole, partial := false, false
				ast.Inspect(body, func(m ast.Node) bool {
					if cc, isC := m.(*ast.CallExpr); isC {
						if f2, _ := callee(info, cc).(*types.Func); f2 != nil && f2.Pkg() != nil {
							switch {
							case (f2.Pkg().Path() == "os" || f2.Pkg().Path() == "io/ioutil") && f2.Name() == "ReadFile", (f2.Pkg().Path() == "io" || f2.Pkg().Path() == "io/ioutil") && f2.Name() == "ReadAll":
								whole = true
							case f2.Pkg().Path() == "io" && (f2.Name() == "ReadFull" || f2.Name() == "ReadAtLeast"), f2.Name() == "Read" && f2.Type().(*types.Signature).Recv() != nil:
								partial = true
							}
						}
					}
					return true
				})
				if whole && !partial {
					ok = true
				} else if partial {
					why = "the file is compared after a bounded read: a longer file that starts with the new content counts as unchanged and keeps its stale tail"
				}
				return true
			}
			if d := r.Decls[fn]; d != nil && d.Decl.Body != nil && depth < 2 {
				// a helper: every `return <expr>` of it that can be true must be a whole-file comparison
				helperOK, any := true, false
				ast.Inspect(d.Decl.Body, func(m ast.Node) bool {
					ret, isRet := m.(*ast.ReturnStmt)
					if !isRet || len(ret.Results) != 1 {
						return true
					}
					if id, isID := ret.Results[0].(*ast.Ident); isID && id.Name == "false" {
						return true
					}
					any = true
					if o, w := wholeFileEqual(d.Pkg.TypesInfo, d.Decl.Body, ret.Results[0], depth+1); !o {
						helperOK = false
						why = w
					}
					return true
				})
				if any && helperOK {
					ok = true
				}
			}
			return true
		})
		return ok, why
	}
	g := newGraph(fi.Decl.Body, func(*ast.CallExpr) bool { return true })
	type state struct {
		b       *cfg.Block
		written bool
		same    bool
	}
	seen := map[state]bool{}
	succ, bad := 0, false
	lastWhy := ""
	var dfs func(s state)
	dfs = func(s state) {
		if seen[s] {
			return
		}
		seen[s] = true
		written := s.written
		for _, n := range s.b.Nodes {
			if nodeHas(n, func(k ast.Node) bool {
				return isOS(k, "os", "Create", "OpenFile", "WriteFile") || isOS(k, "io/ioutil", "WriteFile")
			}) {
				written = true
			}
			ret, ok := n.(*ast.ReturnStmt)
			if !ok || len(ret.Results) == 0 {
				continue
			}
			last := ast.Unparen(ret.Results[len(ret.Results)-1])
			isNil := false
			if id, ok := last.(*ast.Ident); ok && id.Name == "nil" {
				isNil = true
			}
			if c, ok := last.(*ast.CallExpr); ok && strings.HasSuffix(exprStr(c.Fun), ".Close") {
				isNil = true // the error of closing the written file
			}
			if !isNil {
				continue
			}
			succ++
			if !written && !s.same && !bad {
				bad = true
				why := lastWhy
				if why == "" {
					why = "no comparison with the file on disk guards the return"
				}
				rep.fail(Finding{Rule: "G4", Key: "G4|print-writes|success-without-write", Where: []string{r.pos(ret.Pos())},
					Msg: "(*pkg).Print can report success without having written derived.gen.go (return at " + r.pos(ret.Pos()) + "): " + why + "; what the file holds afterwards depends on the previous output"})
			}
		}
		if len(s.b.Succs) == 2 {
			var cond ast.Expr
			if ifs, ok := s.b.Succs[0].Stmt.(*ast.IfStmt); ok && s.b.Succs[0].Kind == cfg.KindIfThen {
				cond = ifs.Cond
			}
			for i, sc := range s.b.Succs {
				same := s.same
				if cond != nil && i == 0 {
					if ok, why := wholeFileEqual(info, fi.Decl.Body, cond, 0); ok {
						same = true
					} else {
						lastWhy = why
					}
				}
				dfs(state{sc, written, same})
			}
			return
		}
		for _, sc := range s.b.Succs {
			dfs(state{sc, written, s.same})
		}
	}
	if e := g.entry(); e != nil {
		dfs(state{e, false, false})
	}
	rep.analysed("print_success_returns", succ)
	if succ == 0 {
		rep.fail(Finding{Rule: "G4", Key: "G4|print-writes|floor", Kind: "undecided", Where: []string{r.pos(fi.Decl.Pos())}, Msg: "(*pkg).Print has no successful return the rule recognises"})
		return
	}
	if !bad {
		rep.pass("G4")
	}
}

// g23BreakOnlyWithoutProgress — the reload loop of generatePackage ends, besides by returning, exactly when a pass leaves the
// same calls undefined as the pass before: a `break` whose enclosing condition is exactly the equality of this pass's undefined
// calls with the recorded ones. A weaker condition (eq || other) ends the run with a stale record — the check after the loop
// reads the record, so `cannot generate` is not reported and goderive exits 0; a stronger one (eq && other) does not end the
// loop when nothing changes any more — with `generated` as the other conjunct, which is true whenever anything can be
// generated, goderive rewrites and reloads for ever.
func g23BreakOnlyWithoutProgress(r *Repo, rep *Report) {
	fi := r.lookup("derive.(*program).generatePackage")
	if fi == nil {
		return
	}
	par := parents(fi.Decl)
	n, good := 0, 0
	// the equality of two different variables that both hold (a rendering of) the package's undefined calls: what this pass
	// found and what the pass before recorded — whatever the two are called
	uinfo := fi.Pkg.TypesInfo
	uvars := undefDerived(uinfo, fi.Decl.Body)
	isEq := func(e ast.Expr) bool {
		be, ok := unparen(e).(*ast.BinaryExpr)
		if !ok || be.Op != token.EQL {
			return false
		}
		if strings.Contains(strings.ToLower(exprStr(be.X)), "undefined") && strings.Contains(strings.ToLower(exprStr(be.Y)), "undefined") {
			return true
		}
		xi, ok1 := unparen(be.X).(*ast.Ident)
		yi, ok2 := unparen(be.Y).(*ast.Ident)
		return ok1 && ok2 && uinfo.Uses[xi] != uinfo.Uses[yi] && uvars[uinfo.Uses[xi]] && uvars[uinfo.Uses[yi]]
	}
	var loopPos token.Pos
	ast.Inspect(fi.Decl.Body, func(m ast.Node) bool {
		loop, ok := m.(*ast.ForStmt)
		if !ok {
			return true
		}
		loopPos = loop.Pos()
		ast.Inspect(loop.Body, func(k ast.Node) bool {
			switch x := k.(type) {
			case *ast.ForStmt, *ast.RangeStmt, *ast.SwitchStmt, *ast.SelectStmt, *ast.FuncLit:
				return false
			case *ast.BranchStmt:
				if x.Tok != token.BREAK {
					return true
				}
				n++
				var cond ast.Expr
				for p := par[x]; p != nil && p != ast.Node(loop); p = par[p] {
					if ifs, ok := p.(*ast.IfStmt); ok {
						cond = ifs.Cond
						break
					}
				}
				switch {
				case cond != nil && isEq(cond):
					good++
					rep.pass("G23")
				case cond != nil && g23NothingGenerated(r, fi, cond):
					// `if !generated { break }`: the loop's other sound exit (see g23HeaderCondition), written as a break
					rep.pass("G23")
				case cond != nil && nodeHas(cond, func(q ast.Node) bool { e, ok := q.(ast.Expr); return ok && isEq(e) }):
					be, _ := unparen(cond).(*ast.BinaryExpr)
					if be != nil && be.Op == token.LAND {
						rep.fail(Finding{Rule: "G23", Key: "G23|unresolved|break-needs-more-than-equality", Where: []string{r.pos(x.Pos())},
							Msg: "generatePackage leaves the reload loop only when, besides the undefined calls being the same as in the pass before, " + exprStr(cond) + " holds: a package with one call that can be generated next to one that never becomes typeable is rewritten and reloaded for ever (goderive hangs, logging `could not yet generate`)"})
					} else {
						good++ // it does end the loop when nothing changes; what is wrong is that it also ends it otherwise
						rep.fail(Finding{Rule: "G23", Key: "G23|unresolved|break-without-equality", Where: []string{r.pos(x.Pos())},
							Msg: "generatePackage leaves the reload loop by a break whose condition (" + exprStr(cond) + ") can hold without this pass's undefined calls being equal to the recorded ones: the record read after the loop is then stale (empty in the first pass), `cannot generate` is not reported and goderive exits 0 with calls that were never generated"})
					}
				default:
					rep.fail(Finding{Rule: "G23", Key: "G23|unresolved|break-without-equality", Where: []string{r.pos(x.Pos())},
						Msg: "generatePackage leaves the reload loop by a break that is not guarded by the equality of this pass's undefined calls with the recorded ones: the record read after the loop is then stale (empty in the first pass), `cannot generate` is not reported and goderive exits 0 with calls that were never generated"})
				}
			}
			return true
		})
		return false
	})
	rep.analysed("reload_loop_breaks", n)
	g23HeaderCondition(r, rep, fi)
	g23ProgressStateLocal(r, rep, fi)
	if good == 0 && loopPos.IsValid() {
		rep.fail(Finding{Rule: "G23", Key: "G23|unresolved|no-progress-exit", Where: []string{r.pos(loopPos)},
			Msg: "the reload loop of generatePackage has no exit that is taken exactly when a pass leaves the same calls undefined as the pass before: a call that never becomes typeable keeps goderive rewriting and reloading for ever"})
	}
}

// g23HeaderCondition — besides the break under "the same calls are still undefined", the reload loop may end through its
// header condition. The only sound header is "this pass generated something" (or none at all): a pass that generated nothing has
// not changed the derived file, so a reload cannot make another call typeable. The variable in the header may therefore only
// be assigned a constant, or the result of (*pkg).Generate (directly, or compared with the constant 0 when Generate returns a
// count). A header that compares this pass with the previous one (more functions than before, a longer file) ends the loop in
// a pass that did make progress — under -dedup a call that becomes typeable in the second pass can be merged into a function of
// the first, the count stays the same — and goderive reports `cannot generate` for a package another pass would have finished.
func g23HeaderCondition(r *Repo, rep *Report, fi *FuncInfo) {
	info := fi.Pkg.TypesInfo
	gen := r.lookup("derive.(*pkg).Generate")
	var loop *ast.ForStmt
	ast.Inspect(fi.Decl.Body, func(m ast.Node) bool {
		if l, ok := m.(*ast.ForStmt); ok && loop == nil {
			loop = l
			return false
		}
		return true
	})
	if loop == nil || loop.Cond == nil {
		if loop != nil {
			rep.pass("G23")
		}
		return
	}
	isGenCall := func(e ast.Expr) bool {
		c, ok := ast.Unparen(e).(*ast.CallExpr)
		return ok && gen != nil && callee(info, c) == gen.Fn
	}
	// locals that hold Generate's first result
	genVars := map[types.Object]bool{}
	ast.Inspect(fi.Decl.Body, func(m ast.Node) bool {
		as, ok := m.(*ast.AssignStmt)
		if !ok || len(as.Rhs) != 1 || !isGenCall(as.Rhs[0]) || len(as.Lhs) == 0 {
			return true
		}
		if id, ok := as.Lhs[0].(*ast.Ident); ok {
			genVars[objOf(info, id)] = true
		}
		return true
	})
	cid, ok := ast.Unparen(loop.Cond).(*ast.Ident)
	if !ok {
		rep.fail(Finding{Rule: "G23", Key: "G23|header|shape", Kind: "undecided", Where: []string{r.pos(loop.Cond.Pos())}, Msg: "the header condition of generatePackage's reload loop is not a variable: " + exprStr(loop.Cond)})
		return
	}
	hv := info.Uses[cid]
	bad := ""
	var badPos token.Pos
	okAssign := func(e ast.Expr) bool {
		e = ast.Unparen(e)
		if tv, ok := info.Types[e]; ok && tv.Value != nil {
			return true
		}
		if id, ok := e.(*ast.Ident); ok && genVars[info.Uses[id]] {
			return true
		}
		if be, ok := e.(*ast.BinaryExpr); ok {
			// n > 0, n != 0, 0 < n
			for _, pair := range [][2]ast.Expr{{be.X, be.Y}, {be.Y, be.X}} {
				id, isID := ast.Unparen(pair[0]).(*ast.Ident)
				tv, isC := info.Types[pair[1]]
				if isID && genVars[info.Uses[id]] && isC && tv.Value != nil && tv.Value.String() == "0" {
					return true
				}
			}
		}
		return false
	}
	ast.Inspect(fi.Decl.Body, func(m ast.Node) bool {
		as, ok := m.(*ast.AssignStmt)
		if !ok {
			return true
		}
		for i, l := range as.Lhs {
			id, ok := l.(*ast.Ident)
			if !ok || objOf(info, id) != hv {
				continue
			}
			if len(as.Rhs) == 1 && len(as.Lhs) > 1 {
				if i == 0 && isGenCall(as.Rhs[0]) {
					continue
				}
				bad, badPos = exprStr(as.Rhs[0]), as.Pos()
				continue
			}
			if i < len(as.Rhs) && !okAssign(as.Rhs[i]) {
				bad, badPos = exprStr(as.Rhs[i]), as.Pos()
			}
		}
		return true
	})
	if bad != "" {
		rep.fail(Finding{Rule: "G23", Key: "G23|header|not-generated-this-pass", Where: []string{r.pos(badPos)},
			Msg: "the reload loop of generatePackage goes on while " + cid.Name + ", which is assigned " + bad + ": that is not `this pass generated something` (the result of (*pkg).Generate) but something else — a comparison with the previous pass ends the loop in a pass that made progress without growing (under -dedup a call that becomes typeable in the second pass is merged into a function of the first), and goderive reports `cannot generate` for a package that one more pass would have finished"})
		return
	}
	rep.pass("G23")
	rep.sample(map[string]string{"rule": "G23 the reload loop's header is `this pass generated something`", "loop": r.pos(loop.Pos())})
}

// isEmptyString: the constant "".
func isEmptyString(info *types.Info, e ast.Expr) bool {
	tv, ok := info.Types[e]
	return ok && tv.Value != nil && tv.Value.ExactString() == `""`
}

// undefDerived: the local variables whose value is computed from the package's undefined calls (the field `undefined` of the
// package generator), directly or through other such variables.
func undefDerived(info *types.Info, body *ast.BlockStmt) map[types.Object]bool {
	undef := map[types.Object]bool{}
	mentions := func(e ast.Expr) bool {
		found := false
		ast.Inspect(e, func(n ast.Node) bool {
			switch x := n.(type) {
			case *ast.SelectorExpr:
				if x.Sel.Name == "undefined" {
					found = true
				}
			case *ast.Ident:
				if undef[info.Uses[x]] {
					found = true
				}
			}
			return true
		})
		return found
	}
	for changed := true; changed; {
		changed = false
		ast.Inspect(body, func(n ast.Node) bool {
			switch x := n.(type) {
			case *ast.AssignStmt:
				if len(x.Lhs) != len(x.Rhs) {
					return true
				}
				for i, l := range x.Lhs {
					var o types.Object
					switch lx := l.(type) {
					case *ast.Ident:
						o = objOf(info, lx)
					case *ast.IndexExpr:
						if id, ok := ast.Unparen(lx.X).(*ast.Ident); ok {
							o = objOf(info, id)
						}
					}
					if o != nil && !undef[o] && mentions(x.Rhs[i]) {
						undef[o] = true
						changed = true
					}
				}
			case *ast.RangeStmt:
				// for _, u := range <U> { … }: the element is one of them
				if mentions(x.X) {
					for _, kv := range []ast.Expr{x.Key, x.Value} {
						if id, ok := kv.(*ast.Ident); ok && kv != nil {
							if o := objOf(info, id); o != nil && !undef[o] {
								undef[o] = true
								changed = true
							}
						}
					}
				}
			}
			return true
		})
	}
	return undef
}

// g23NothingGenerated: the condition is the negation of a variable that only ever holds the result of (*pkg).Generate.
func g23NothingGenerated(r *Repo, fi *FuncInfo, cond ast.Expr) bool {
	info := fi.Pkg.TypesInfo
	gen := r.lookup("derive.(*pkg).Generate")
	e, neg := stripNot(cond)
	id, ok := e.(*ast.Ident)
	if !ok || !neg || gen == nil {
		return false
	}
	v := info.Uses[id]
	fromGen, other := false, false
	ast.Inspect(fi.Decl.Body, func(m ast.Node) bool {
		as, ok := m.(*ast.AssignStmt)
		if !ok {
			return true
		}
		for i, l := range as.Lhs {
			lid, ok := l.(*ast.Ident)
			if !ok || objOf(info, lid) != v {
				continue
			}
			if len(as.Rhs) == 1 && i == 0 {
				if c, isCall := ast.Unparen(as.Rhs[0]).(*ast.CallExpr); isCall && callee(info, c) == gen.Fn {
					fromGen = true
					continue
				}
			}
			if i < len(as.Rhs) && len(as.Rhs) == len(as.Lhs) {
				if tv, has := info.Types[as.Rhs[i]]; has && tv.Value != nil {
					continue // a constant initial value
				}
			}
			other = true
		}
		return true
	})
	return fromGen && !other
}

// g5LocalIs: e is a local variable with exactly one definition, whose right-hand side has the given text.
func g5LocalIs(info *types.Info, fi *FuncInfo, e ast.Expr, text string) bool {
	id, ok := ast.Unparen(e).(*ast.Ident)
	if !ok || info.Uses[id] == nil {
		return false
	}
	v := info.Uses[id]
	defs, match := 0, false
	ast.Inspect(fi.Decl.Body, func(m ast.Node) bool {
		as, ok := m.(*ast.AssignStmt)
		if !ok || len(as.Lhs) != len(as.Rhs) {
			return true
		}
		for k, l := range as.Lhs {
			if lid, ok := l.(*ast.Ident); ok && objOf(info, lid) == v {
				defs++
				if exprStr(as.Rhs[k]) == text {
					match = true
				}
			}
		}
		return true
	})
	return defs == 1 && match
}

// g23ProgressStateLocal — what a pass left undefined is compared with what the pass before left undefined *for this package*. The
// record of the pass before must therefore live in generatePackage's own activation (a local variable): a field of the
// program (or any other value that outlives the call) still holds the calls of the package that was generated before this
// one, so the first pass of a package can look like a pass without progress (or the other way round) depending on which other
// packages were named in the same invocation, and in which order.
func g23ProgressStateLocal(r *Repo, rep *Report, fi *FuncInfo) {
	info := fi.Pkg.TypesInfo
	uvars := undefDerived(info, fi.Decl.Body)
	// fields (by their text) that are assigned a rendering of the undefined calls
	ufields := map[string]bool{}
	mentionsU := func(e ast.Expr) bool {
		found := false
		ast.Inspect(e, func(n ast.Node) bool {
			switch x := n.(type) {
			case *ast.SelectorExpr:
				if x.Sel.Name == "undefined" {
					found = true
				}
			case *ast.Ident:
				if uvars[info.Uses[x]] {
					found = true
				}
			}
			return true
		})
		return found
	}
	outlives := func(e ast.Expr) bool {
		sel, ok := ast.Unparen(e).(*ast.SelectorExpr)
		if !ok {
			return false
		}
		if s := info.Selections[sel]; s == nil || s.Kind() != types.FieldVal {
			return false
		}
		root := ast.Unparen(sel.X)
		for {
			if s2, ok := root.(*ast.SelectorExpr); ok {
				root = ast.Unparen(s2.X)
				continue
			}
			break
		}
		id, ok := root.(*ast.Ident)
		if !ok {
			return false
		}
		v, ok := info.Uses[id].(*types.Var)
		if !ok {
			return false
		}
		// the receiver or a parameter of generatePackage, or a package-level variable: its fields outlive the call; a struct that
		// was created in this activation does not
		if v.Parent() == v.Pkg().Scope() {
			return true
		}
		sig := fi.Fn.Type().(*types.Signature)
		if sig.Recv() == v {
			return true
		}
		for i := 0; i < sig.Params().Len(); i++ {
			if sig.Params().At(i) == v {
				return true
			}
		}
		return false
	}
	ast.Inspect(fi.Decl.Body, func(n ast.Node) bool {
		as, ok := n.(*ast.AssignStmt)
		if !ok || len(as.Lhs) != len(as.Rhs) {
			return true
		}
		for i, l := range as.Lhs {
			if outlives(l) && mentionsU(as.Rhs[i]) {
				ufields[exprStr(l)] = true
			}
		}
		return true
	})
	bad := false
	ast.Inspect(fi.Decl.Body, func(n ast.Node) bool {
		be, ok := n.(*ast.BinaryExpr)
		if !ok || (be.Op != token.EQL && be.Op != token.NEQ) {
			return true
		}
		for _, pair := range [][2]ast.Expr{{be.X, be.Y}, {be.Y, be.X}} {
			if outlives(pair[0]) && ufields[exprStr(pair[0])] && mentionsU(pair[1]) {
				bad = true
				rep.fail(Finding{Rule: "G23", Key: "G23|progress|state-outlives-package", Where: []string{r.pos(be.Pos())},
					Msg: "generatePackage compares what this pass left undefined with " + exprStr(pair[0]) + ", which outlives the package (a field of the program): when this package is generated it still holds the calls of the package generated before it, so whether the first pass counts as progress — and with it whether the run ends in `cannot generate` or goes on — depends on which other packages are named in the same invocation and in which order"})
				return true
			}
		}
		return true
	})
	if !bad {
		rep.pass("G23")
	}
}
