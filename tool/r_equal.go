package main

import (
	"fmt"
	"go/ast"
	"go/token"
	"go/types"
	"strings"
)

func kindOfVal(v Value) string {
	o, ok := v.(*VOpaque)
	if !ok || o == nil {
		return ""
	}
	k := o.Kind
	if k == "" || k == "*types.Named" || k == "*types.Alias" || k == "other" {
		if u, ok := o.attrs["Underlying"].(*VOpaque); ok && u.Kind != "" && u.Kind != "other" {
			return u.Kind
		}
	}
	return k
}

func underlyingVal(v Value) *VOpaque {
	o, ok := v.(*VOpaque)
	if !ok || o == nil {
		return nil
	}
	if o.Kind == "" || o.Kind == "*types.Named" || o.Kind == "*types.Alias" || o.Kind == "other" {
		if u, ok := o.attrs["Underlying"].(*VOpaque); ok {
			return u
		}
	}
	return o
}

// valOfExpr resolves the symbolic type of a residual expression when it is a parameter, a dereference or an element of one.
func (s *sided) valOfExpr(e ast.Expr) *VOpaque {
	switch x := unparen(e).(type) {
	case *ast.Ident:
		if te, ok := s.ptyp[x.Name]; ok {
			if id, ok := te.(*ast.Ident); ok {
				if h := s.rs.hole(id.Name); h != nil {
					if o, ok := h.Val.(*VOpaque); ok {
						return unmangled(o)
					}
				}
			}
		}
	case *ast.StarExpr:
		// *(*T)(unsafe.Pointer(...)): the conversion's target type
		if c, ok := unparen(x.X).(*ast.CallExpr); ok {
			if st, ok := unparen(c.Fun).(*ast.StarExpr); ok {
				if id, ok := st.X.(*ast.Ident); ok {
					if h := s.rs.hole(id.Name); h != nil && h.Kind == "TYPE" {
						if o, ok := h.Val.(*VOpaque); ok {
							return unmangled(o)
						}
					}
				}
			}
		}
		if b := underlyingVal(s.valOfExpr(x.X)); b != nil && b.Kind == "*types.Pointer" {
			if el, ok := b.attrs["Elem"].(*VOpaque); ok {
				return el
			}
		}
	case *ast.SelectorExpr:
		// field access: the NAME hole knows its *types.Var
		if h := s.rs.hole(x.Sel.Name); h != nil && h.Kind == "NAME" {
			if v, ok := h.Val.(*VOpaque); ok {
				if t, ok := v.attrs["Type"].(*VOpaque); ok {
					return t
				}
			}
		}
	case *ast.IndexExpr:
		if b := underlyingVal(s.valOfExpr(x.X)); b != nil {
			if el, ok := b.attrs["Elem"].(*VOpaque); ok && (b.Kind == "*types.Slice" || b.Kind == "*types.Array" || b.Kind == "*types.Map") {
				return el
			}
		}
	case *ast.UnaryExpr:
		if x.Op == token.AND {
			// &x : no symbolic pointer type available; callers strip & themselves
			return nil
		}
	}
	// a single-assignment local: the type of its definition
	if id, ok := unparen(e).(*ast.Ident); ok && id.Pos().IsValid() {
		if d, ok := s.defs.lookup(id.Name, id.Pos()); ok {
			return s.valOfExpr(d)
		}
	}
	return nil
}

func isTypeExpr(rs *Resid, e ast.Expr) bool {
	switch x := unparen(e).(type) {
	case *ast.Ident:
		if h := rs.hole(x.Name); h != nil {
			return h.Kind == "TYPE"
		}
		_, isType := types.Universe.Lookup(x.Name).(*types.TypeName) // not the builtin functions (real, imag, len, …) or constants
		return universe[x.Name] && isType
	case *ast.StarExpr:
		return isTypeExpr(rs, x.X)
	case *ast.ArrayType, *ast.MapType, *ast.ChanType, *ast.FuncType, *ast.StructType, *ast.InterfaceType:
		return true
	case *ast.SelectorExpr:
		return false
	}
	return false
}

// alwaysNonNil: conversions to pointer through unsafe, address-of, fresh allocations.
func alwaysNonNil(rs *Resid, e ast.Expr) bool {
	switch x := unparen(e).(type) {
	case *ast.UnaryExpr:
		return x.Op == token.AND
	case *ast.CallExpr:
		if isTypeExpr(rs, x.Fun) {
			return true // (*T)(unsafe.Pointer(...UnsafeAddr()))
		}
		if id, ok := x.Fun.(*ast.Ident); ok && (id.Name == "new" || id.Name == "make") {
			return true
		}
	}
	return false
}

// guardIssues (R7): dereferences need a non-nil guard; indexing one side by the other's bound needs equal lengths;
// a looked-up map value may only be used after its ok was tested.
func (s *sided) guardIssues(checkIndex bool) []sideIssue {
	var out []sideIssue
	ptrParams := map[string]bool{}
	for nm := range s.ptyp {
		if o := s.valOfExpr(ast.NewIdent(nm)); o != nil && kindOfVal(o) == "*types.Pointer" {
			ptrParams[nm] = true
		}
		if _, isStar := s.ptyp[nm].(*ast.StarExpr); isStar {
			ptrParams[nm] = true
		}
	}
	// comma-ok lookups: value var -> ok var
	okOf := map[string]string{}
	ast.Inspect(s.body, func(n ast.Node) bool {
		as, ok := n.(*ast.AssignStmt)
		if !ok || len(as.Lhs) != 2 || len(as.Rhs) != 1 {
			return true
		}
		if _, isIdx := as.Rhs[0].(*ast.IndexExpr); !isIdx {
			return true
		}
		v, ok1 := as.Lhs[0].(*ast.Ident)
		o, ok2 := as.Lhs[1].(*ast.Ident)
		if ok1 && ok2 && v.Name != "_" {
			if o.Name == "_" {
				okOf[v.Name] = "_"
			} else {
				okOf[v.Name] = o.Name
			}
		}
		return true
	})
	// loop bounds: index var -> bound operand
	type loopB struct {
		idx, bound string
		body       *ast.BlockStmt
	}
	var loops []loopB
	ast.Inspect(s.body, func(n ast.Node) bool {
		fs, ok := n.(*ast.ForStmt)
		if !ok || fs.Cond == nil {
			return true
		}
		be, ok := fs.Cond.(*ast.BinaryExpr)
		if !ok || be.Op != token.LSS {
			return true
		}
		if id, ok := be.X.(*ast.Ident); ok {
			if la := lenArg(be.Y); la != "" {
				loops = append(loops, loopB{id.Name, la, fs.Body})
			}
		}
		return true
	})
	w := &guardWalker{}
	w.onExpr = func(e ast.Expr, f Facts, stack []ast.Node) {
		switch x := e.(type) {
		case *ast.StarExpr:
			if isTypeExpr(s.rs, x) || alwaysNonNil(s.rs, x.X) {
				return
			}
			// type position: parent is a conversion's Fun or a declaration type — skip if parent chain says so
			if len(stack) > 0 {
				switch p := stack[len(stack)-1].(type) {
				case *ast.ParenExpr:
					if len(stack) > 1 {
						if c, ok := stack[len(stack)-2].(*ast.CallExpr); ok && c.Fun == ast.Expr(p) {
							return
						}
					}
				case *ast.CallExpr:
					if p.Fun == ast.Expr(x) {
						return
					}
				}
			}
			if !f["nn:"+canon(x.X)] {
				out = append(out, sideIssue{x, fmt.Sprintf("dereferences %s without a dominating `%s != nil` test", s.rs.src(x.X), s.rs.src(x.X)), "deref-unguarded", s.norm(x.X)})
			}
		case *ast.SelectorExpr:
			if id, ok := x.X.(*ast.Ident); ok && ptrParams[id.Name] && !f["nn:"+id.Name] {
				// method calls on a nil pointer receiver are the user's method's business; field reads are not
				isCallFun := false
				if len(stack) > 0 {
					if c, ok := stack[len(stack)-1].(*ast.CallExpr); ok && c.Fun == ast.Expr(x) {
						isCallFun = true
					}
				}
				if !isCallFun {
					out = append(out, sideIssue{x, fmt.Sprintf("reads %s through the pointer %s without a dominating `%s != nil` test", s.rs.src(x), id.Name, id.Name), "deref-unguarded", "field-of-" + s.norm(x.X)})
				}
			}
		case *ast.IndexExpr:
			if !checkIndex {
				return
			}
			// single-value lookup in a map of a key that is not known to be present
			if o := s.valOfExpr(x.X); o != nil && kindOfVal(o) == "*types.Map" {
				commaOkOrStore := false
				if len(stack) > 0 {
					if as, ok := stack[len(stack)-1].(*ast.AssignStmt); ok {
						if len(as.Lhs) == 2 && len(as.Rhs) == 1 && as.Rhs[0] == ast.Expr(x) {
							commaOkOrStore = true
						}
						for _, l := range as.Lhs {
							if l == ast.Expr(x) {
								commaOkOrStore = true
							}
						}
					}
				}
				if !commaOkOrStore && !f["keyof:"+canon(x.Index)+"|"+canon(x.X)] && !keyFromOwnKeys(s, x) {
					out = append(out, sideIssue{x, fmt.Sprintf("reads %s with a single-value map lookup although the key is not known to be present: a missing key is indistinguishable from a stored zero/nil value", s.rs.src(x)), "lookup-unchecked", ""})
				}
				return
			}
			idx, ok := x.Index.(*ast.Ident)
			if !ok {
				return
			}
			for _, l := range loops {
				if l.idx != idx.Name || !(l.body.Pos() <= x.Pos() && x.End() <= l.body.End()) {
					continue
				}
				base := canon(x.X)
				if base == l.bound {
					continue
				}
				if o := s.valOfExpr(x.X); o != nil && kindOfVal(o) == "*types.Array" {
					continue
				}
				p := []string{base, l.bound}
				if p[0] > p[1] {
					p[0], p[1] = p[1], p[0]
				}
				if !f["leneq:"+p[0]+"|"+p[1]] {
					out = append(out, sideIssue{x, fmt.Sprintf("indexes %s with an index bounded by len(%s) without a dominating test that the lengths are equal", s.rs.src(x.X), l.bound), "index-unguarded", s.norm(x.X)})
				}
			}
		case *ast.Ident:
			okv, tracked := okOf[x.Name]
			if !tracked {
				return
			}
			// the defining statement itself is not a use
			if len(stack) > 0 {
				if as, ok := stack[len(stack)-1].(*ast.AssignStmt); ok {
					for _, l := range as.Lhs {
						if l == ast.Expr(x) {
							return
						}
					}
				}
			}
			if okv == "_" || !f["t:"+okv] {
				out = append(out, sideIssue{x, fmt.Sprintf("uses the looked-up value %s although the lookup's ok result was not established (a missing key yields the zero value)", x.Name), "lookup-unchecked", ""})
			}
		}
	}
	w.block(s.body.List, Facts{})
	return out
}

// impureIssues (R10): writes through a root parameter.
func writesThroughRoots(s *sided, allowed map[string]bool) []sideIssue {
	var out []sideIssue
	ast.Inspect(s.body, func(n ast.Node) bool {
		var lhs []ast.Expr
		switch x := n.(type) {
		case *ast.AssignStmt:
			if x.Tok == token.DEFINE {
				return true
			}
			lhs = x.Lhs
		case *ast.IncDecStmt:
			lhs = []ast.Expr{x.X}
		}
		for _, l := range lhs {
			if _, isId := unparen(l).(*ast.Ident); isId {
				continue // rebinding a variable is not a write through it
			}
			sd := s.flowSide(l)
			for _, r := range []string{"A", "B"} {
				if strings.Contains(sd, r) && !allowed[r] {
					out = append(out, sideIssue{l, fmt.Sprintf("writes %s, which belongs to the argument %s", s.rs.src(l), map[string]string{"A": s.A, "B": s.B}[r]), "write-through-arg", ""})
				}
			}
		}
		return true
	})
	return out
}

func reportIssues(c *Ctx, rs *Resid, rule, prefix string, issues []sideIssue) bool {
	for _, is := range issues {
		gf := "?"
		if ln := rs.line(is.node.Pos()); ln-1 < len(rs.Run.LinePos) {
			gf = c.R.repo.funcAt(rs.Run.LinePos[ln-1])
		}
		key := fmt.Sprintf("%s|%s|%s|%s", rule, rs.Run.Plugin, gf, is.kind)
		if is.shape != "" {
			key += "|" + holeRe.ReplaceAllString(is.shape, "_")
		}
		c.Rep.fail(Finding{Rule: rule, Key: key, Where: []string{rs.where(c.Repo, is.node)}, Plugin: rs.Run.Plugin, Script: rs.Run.Script,
			Msg:    fmt.Sprintf("%s%s: %s", prefix, rs.Run.Plugin, is.msg),
			Detail: "abstract path: " + rs.Run.describe() + "\nlegend:\n" + rs.Run.legend() + "residual:\n" + rs.Run.excerpt(70)})
	}
	return len(issues) == 0
}

// methodBeforeOperator: on every run, a sibling predicate that licenses the plain operator for a type may only be answered
// true after the generator asked whether the type is named and, if so, whether it declares its own method (decision order).
func methodBeforeOperator(c *Ctx, plugin, pred, method, rule, opDesc string) {
	for _, r := range c.R.Runs(plugin) {
		if r.Outcome != "accepted" && r.Outcome != "generror" {
			continue
		}
		for j, d := range r.Decisions {
			pre := "B:pred:" + pred + "("
			if !strings.HasPrefix(d.Sym, pre) || d.Choice != 0 {
				continue
			}
			org := strings.TrimSuffix(strings.TrimPrefix(d.Sym, pre), ",)")
			namedAsked, namedYes, methAsked := false, false, false
			for _, e := range r.Decisions[:j] {
				if e.Sym == "A:"+org+":*types.Named" {
					namedAsked = true
					namedYes = e.Choice == 0
				} else if strings.HasPrefix(e.Sym, "A:"+org+":") && e.Choice == 0 {
					namedAsked = true // the value itself was refined to a concrete (unnamed) kind
				}
				if strings.HasPrefix(e.Sym, "K:"+org+":") {
					namedAsked = true // a type switch on the value itself established its dynamic kind
				}
				if e.Sym == "B:pred:"+method+"("+org+",)!=nil" || e.Sym == "B:pred:"+method+"("+org+",)#1" {
					methAsked = true
				}
			}
			// values that cannot be named (results of Underlying()) need no method lookup
			if strings.HasSuffix(org, ".Underlying()") {
				c.Rep.pass(rule)
				continue
			}
			if !namedAsked || (namedYes && !methAsked) {
				c.Rep.fail(Finding{Rule: rule, Key: fmt.Sprintf("%s|%s|operator-before-method|%s", rule, plugin, pred), Plugin: plugin, Script: r.Script,
					Msg:    fmt.Sprintf("plugin %s decides to emit %s for a type (%s answered true) before it asked whether the type is a named type declaring its own %s: the user's method is bypassed for comparable named types", plugin, opDesc, pred, strings.TrimSuffix(strings.TrimPrefix(method, "equalMethodInputParam"), "")),
					Detail: "abstract path: " + r.describe()})
			} else {
				c.Rep.pass(rule)
			}
		}
	}
}

// checkC02 applies the equal rules.
func runR_C02(c *Ctx) {
	equalCoreRules(c, true)
	c.Rep.floor("R6", 100)
}

// equalCoreRules: the equal plugin's own residual rules (also part of C14 and C18: unique, contains and mem decide membership
// with the derived equal function).
// leafSemantics: also judge the nil-blindness of library comparisons (a question about Equal itself, not about its users).
func equalCoreRules(c *Ctx, leafSemantics bool) {
	sweepHealth(c, "equal")
	rR1(c, "equal")
	type bodyKey struct{ decisions string }
	bodies := map[string]map[int]string{} // decisions minus arity -> nargs -> body text
	bodyRun := map[string]*Resid{}
	n := 0
	for _, rs := range c.acceptedResids("equal") {
		if rs.Err != nil || len(rs.Funcs) != 1 {
			continue
		}
		s := newSided(rs, rs.Funcs[0])
		if s == nil {
			c.Rep.fail(residFinding(c.Repo, rs, "R6", "shape", "equal: emitted function does not have two operands", rs.Funcs[0]))
			continue
		}
		n++
		ok := true
		ok = reportIssues(c, rs, "R6", "", s.mirrorIssues(false)) && ok
		ok = reportIssues(c, rs, "R6", "", s.nilTestIssues()) && ok
		ok = reportIssues(c, rs, "R19", "", s.fieldCoverage("AB")) && ok
		ok = reportIssues(c, rs, "R7", "", s.guardIssues(true)) && ok
		ok = reportIssues(c, rs, "R10", "", writesThroughRoots(s, nil)) && ok
		if leafSemantics {
			ok = reportIssues(c, rs, "R-leaf", "", nilBlindLibCalls(s)) && ok
		}
		ok = reportIssues(c, rs, "R-op", "", s.operatorLicenseIssues("canEqual")) && ok
		if ok {
			c.Rep.pass("R6")
			c.Rep.pass("R7")
			c.Rep.pass("R19")
			c.Rep.pass("R10")
		}
		if len(c.Rep.Samples) < 6 && rs.Run.Config == "leaf" {
			c.Rep.sample(map[string]interface{}{"plugin": "equal", "path": rs.Run.shapeKey(), "residual": rs.Run.Text})
		}
		// curried vs binary agreement
		var ds []string
		for _, d := range rs.Run.Decisions {
			if d.Sym == "ARGS" || strings.HasPrefix(d.Sym, "B:types.Identical(") {
				continue
			}
			ds = append(ds, fmt.Sprintf("%s=%d", d.Sym, d.Choice))
		}
		k := rs.Run.Config + "|" + strings.Join(ds, ";")
		if bodies[k] == nil {
			bodies[k] = map[int]string{}
		}
		text := rs.src(s.body)
		text = replaceIdent(text, s.A, "§A")
		text = replaceIdent(text, s.B, "§B")
		text = holeRe.ReplaceAllString(text, "_")
		bodies[k][rs.Run.NArgs] = strings.Join(strings.Fields(text), " ")
		bodyRun[k] = rs
	}
	for k, m := range bodies {
		if len(m) == 2 {
			if m[1] == m[2] {
				c.Rep.pass("R-curried")
			} else {
				c.Rep.fail(residFinding(c.Repo, bodyRun[k], "R-curried", "differs", "equal: the one-argument (curried) form and the two-argument form emit different comparison bodies for the same type shape", bodyRun[k].Funcs[0]))
			}
		}
	}
	curriedCompat(c, "equal", bodies, bodyRun)
	c.Rep.analysed("equal_residuals", n)
	methodBeforeOperator(c, "equal", "canEqual", methodPredicateName(c.R.repo, "equal.equalMethodInputParam", "Equal"), "R-method", "`==`")
	namedFieldConsultsMethod(c, "equal", methodPredicateName(c.R.repo, "equal.equalMethodInputParam", "Equal"), "Equal")
	runG9(c, "equal.canEqual")
	g9Methods(c, methodSpec{"equal.equalMethodInputParam", "Equal", 1, 1, types.Bool})
}

// nilBlindLibCalls: library comparisons that are documented to treat nil and empty alike must be accompanied by a nil-ness
// agreement test of the same pair (frozen Go fact: bytes.Equal/bytes.Compare: "a nil argument is equivalent to an empty slice").
func nilBlindLibCalls(s *sided) []sideIssue {
	var out []sideIssue
	ast.Inspect(s.body, func(n ast.Node) bool {
		c, ok := n.(*ast.CallExpr)
		if !ok || len(c.Args) != 2 {
			return true
		}
		sel, ok := c.Fun.(*ast.SelectorExpr)
		if !ok || (sel.Sel.Name != "Equal" && sel.Sel.Name != "Compare") {
			return true
		}
		id, ok := sel.X.(*ast.Ident)
		if !ok {
			return true
		}
		h := s.rs.hole(id.Name)
		if h == nil || h.Kind != "PKG" || h.Origin != "bytes" {
			return true
		}
		// is there a nil-ness test of the first operand in the function?
		want := s.norm(c.Args[0])
		found := false
		ast.Inspect(s.body, func(m ast.Node) bool {
			be, ok := m.(*ast.BinaryExpr)
			if !ok || (be.Op != token.EQL && be.Op != token.NEQ) {
				return true
			}
			if (isNilLit(be.Y) && s.norm(be.X) == want) || (isNilLit(be.X) && s.norm(be.Y) == want) {
				found = true
			}
			return true
		})
		if !found {
			out = append(out, sideIssue{c, fmt.Sprintf("compares a byte-slice pair with bytes.%s only: a nil and an empty slice are reported equal although their nil-ness differs", sel.Sel.Name), "bytes-nil-blind", ""})
		}
		return true
	})
	return out
}

// keyFromOwnKeys: m[k] where k expands to keys(m)[i] or sort(keys(m))[i] — the key is present by construction.
func keyFromOwnKeys(s *sided, x *ast.IndexExpr) bool {
	k, ok := unparen(s.exp(x.Index)).(*ast.IndexExpr)
	if !ok {
		return false
	}
	c, ok := unparen(k.X).(*ast.CallExpr)
	if !ok || len(c.Args) != 1 {
		return false
	}
	if funcHoleWho(s.rs, c.Fun) == "sort" {
		c, ok = unparen(c.Args[0]).(*ast.CallExpr)
		if !ok || len(c.Args) != 1 {
			return false
		}
	}
	return funcHoleWho(s.rs, c.Fun) == "keys" && canon(s.exp(c.Args[0])) == canon(s.exp(x.X))
}

// operatorLicenseIssues: `==`/`!=` between two mirrored value operands is structural only for types the tabulated
// predicate accepts: the run must have asked <pred> about exactly that operand's type (or its Underlying()) and got true.
func (s *sided) operatorLicenseIssues(pred string) []sideIssue {
	var out []sideIssue
	run := s.rs.Run
	anyTrue := false
	for _, d := range run.Decisions {
		if strings.HasPrefix(d.Sym, "B:pred:"+pred+"(") && d.Choice == 0 {
			anyTrue = true
		}
	}
	ast.Inspect(s.body, func(n ast.Node) bool {
		be, ok := n.(*ast.BinaryExpr)
		if !ok || (be.Op != token.EQL && be.Op != token.NEQ) || isNilLit(be.X) || isNilLit(be.Y) {
			return true
		}
		sx, sy := s.side(be.X), s.side(be.Y)
		if !((sx == "A" && sy == "B") || (sx == "B" && sy == "A")) {
			return true
		}
		if lenExprArg(be.X) != nil || lenExprArg(be.Y) != nil {
			return true
		}
		// (a == nil) == (b == nil): an agreement test of two nil-ness tests compares booleans
		isNilTest := func(e ast.Expr) bool {
			b, ok := unparen(e).(*ast.BinaryExpr)
			return ok && (b.Op == token.EQL || b.Op == token.NEQ) && (isNilLit(b.X) || isNilLit(b.Y))
		}
		if isNilTest(be.X) && isNilTest(be.Y) {
			return true
		}
		licensed := false
		if o := s.valOfExpr(be.X); o != nil {
			cands := []*VOpaque{o, underlyingVal(o)}
			// the predicates are tabulated over Underlying(): what they accept for a named type they accept for its
			// underlying type (a value read through the underlying type of a type that cannot be spelled)
			if n, ok := o.attrs["#underlyingOf"].(*VOpaque); ok {
				cands = append(cands, n)
			}
			for _, cand := range cands {
				if ans, asked := run.predTrue(pred, cand); asked && ans {
					licensed = true
				}
			}
			// an operand refined to a basic kind needs no predicate (== is structural for basic values)
			if kindOfVal(o) == "*types.Basic" {
				licensed = true
			}
		} else if anyTrue {
			licensed = true // type not resolvable from the residual: some operand type was licensed on this path
		}
		// an operand whose declared type is the empty struct literal: == is trivially structural
		if id, ok := unparen(be.X).(*ast.Ident); ok {
			if st, ok := s.ptyp[id.Name].(*ast.StructType); ok && (st.Fields == nil || len(st.Fields.List) == 0) {
				licensed = true
			}
		}
		if !licensed {
			out = append(out, sideIssue{be, fmt.Sprintf("compares %s with `%s` although %s was not established for the operands' type on this path: for types holding pointers, slices or maps the operator compares identity (or does not compile) instead of structure", s.rs.src(be.X), be.Op, pred), "operator-unlicensed", ""})
		}
		return true
	})
	return out
}

func truncate(s string, n int) string {
	if len(s) > n {
		return s[:n] + "…"
	}
	return s
}

// kindFacts: the literal kind each type value was refined to on a run (assertions answered yes, type-switch arms taken),
// keyed by the value's origin with a trailing .Underlying() removed.
func kindFacts(r *Run) map[string]string {
	out := map[string]string{}
	// a type and its Underlying() have the same kind and the same components at every level
	norm := func(o string) string { return strings.ReplaceAll(o, ".Underlying()", "") }
	for _, d := range r.Decisions {
		switch {
		case strings.HasPrefix(d.Sym, "A:"):
			rest := strings.TrimPrefix(d.Sym, "A:")
			i := strings.LastIndex(rest, ":*types.")
			if i <= 0 {
				continue
			}
			org, k := rest[:i], rest[i+1:]
			isNamedQ := k == "*types.Named" || k == "*types.Alias"
			// named-ness of the value itself (not of an Underlying() result)
			if !strings.HasSuffix(org, ".Underlying()") {
				switch {
				case isNamedQ:
					out["named:"+norm(org)] = map[bool]string{true: "yes", false: "no"}[d.Choice == 0]
				case d.Choice == 0:
					out["named:"+norm(org)] = "no" // the value itself is a literal type
				}
			}
			if d.Choice == 0 && !isNamedQ {
				out[norm(org)] = k
			}
			if d.Choice != 0 && !isNamedQ {
				out["not:"+norm(org)+":"+k] = "yes" // a failed assertion: the type is not of this kind
			}
		case strings.HasPrefix(d.Sym, "K:"):
			rest := strings.TrimPrefix(d.Sym, "K:")
			if i := strings.Index(rest, ":*types."); i > 0 {
				ks := strings.Split(rest[i+1:], ",")
				if d.Choice < len(ks) && ks[d.Choice] != "*types.Named" && ks[d.Choice] != "*types.Alias" {
					out[norm(rest[:i])] = ks[d.Choice]
				}
				if d.Choice >= len(ks) {
					for _, k := range ks { // the default arm: none of the listed kinds
						out["not:"+norm(rest[:i])+":"+k] = "yes"
					}
				}
			}
		}
	}
	return out
}

// curriedCompat: for every pair of a curried and a two-argument run whose decisions do not contradict each other (an input
// satisfying both exists) the bodies must be equal. When both forms are generated by the same code this reduces to comparing
// runs with identical decisions; it catches a curried form that is generated by other code (which asks other questions).
func curriedCompat(c *Ctx, plugin string, bodies map[string]map[int]string, bodyRun map[string]*Resid) {
	type formRun struct {
		cfg  string
		dec  map[string]int
		body string
		rs   *Resid
	}
	forms := map[int][]formRun{}
	for k, m := range bodies {
		for nargs, body := range m {
			parts := strings.SplitN(k, "|", 2)
			fr := formRun{cfg: parts[0], dec: map[string]int{}, body: body, rs: bodyRun[k]}
			if len(parts) == 2 {
				for _, kv := range strings.Split(parts[1], ";") {
					if i := strings.LastIndex(kv, "="); i > 0 {
						n := 0
						fmt.Sscanf(kv[i+1:], "%d", &n)
						sym := kv[:i]
						if strings.HasPrefix(sym, "B:") || strings.HasPrefix(sym, "N:") || strings.HasPrefix(sym, "NMF:") || strings.HasPrefix(sym, "S:") || strings.HasPrefix(sym, "A:*pred:") {
							// predicates, arities, names and basic kinds are properties of the type at every level,
							// whether it was reached through Underlying() or not
							sym = strings.ReplaceAll(sym, ".Underlying()", "")
						}
						fr.dec[parts[0]+"|"+sym] = n
					}
				}
			}
			forms[nargs] = append(forms[nargs], fr)
		}
	}
	reported := false
	pairs := 0
	for _, cu := range forms[1] {
		for _, bi := range forms[2] {
			if cu.body == bi.body || cu.cfg != bi.cfg {
				continue // different configurations name the same positions differently (tied vs free): not comparable
			}
			compatible := true
			for sym, v := range cu.dec {
				if w, ok := bi.dec[sym]; ok && w != v {
					compatible = false
					break
				}
			}
			if compatible {
				// the same type value may be refined through different questions (an assertion in one form, a type switch on
				// its Underlying() in the other): the kinds they establish must agree too
				ck, bk := kindFacts(cu.rs.Run), kindFacts(bi.rs.Run)
				for org, k := range ck {
					if k2, ok := bk[org]; ok && k2 != k {
						compatible = false
						break
					}
					if !strings.HasPrefix(org, "not:") && !strings.HasPrefix(org, "named:") && bk["not:"+org+":"+k] == "yes" {
						compatible = false
						break
					}
				}
				for org, k := range bk {
					if !strings.HasPrefix(org, "not:") && !strings.HasPrefix(org, "named:") && ck["not:"+org+":"+k] == "yes" {
						compatible = false
						break
					}
				}
			}
			if !compatible {
				continue
			}
			pairs++
			if !reported {
				reported = true
				c.Rep.fail(residFinding(c.Repo, cu.rs, "R-curried", "differs-compatible", plugin+": for an input that satisfies both abstract paths the one-argument (curried) form emits `"+truncate(cu.body, 120)+"` while the two-argument form emits `"+truncate(bi.body, 120)+"`: the two forms do not agree (two-argument path: "+truncate(bi.rs.Run.describe(), 700)+")", cu.rs.Funcs[0]))
			}
		}
	}
	if pairs == 0 {
		c.Rep.pass("R-curried")
	}
}

// unmangled: a type whose text went through a format (interp.go mangledType) denotes the same values as the original.
func unmangled(o *VOpaque) *VOpaque {
	if o != nil {
		if m, ok := o.attrs["#mangledOf"].(*VOpaque); ok {
			return m
		}
	}
	return o
}
