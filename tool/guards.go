package main

import (
	"go/ast"
	"go/token"
	"sort"
	"strings"
)

// Facts is the set of conditions known to hold at a program point of a residual function ("guard set").
// Canonical forms: "nn:<expr>" (expr != nil), "nil:<expr>", "leneq:<a>|<b>" (sorted), "t:<expr>" (expr true), "f:<expr>".
type Facts map[string]bool

func (f Facts) with(add []string) Facts {
	if len(add) == 0 {
		return f
	}
	n := make(Facts, len(f)+len(add))
	for k := range f {
		n[k] = true
	}
	for _, a := range add {
		n[a] = true
	}
	// len(a) <= len(b) and len(b) <= len(a) (two guard clauses `if len(a) < len(b) {…}; if len(a) > len(b) {…}` passed) is equality
	for k := range n {
		if strings.HasPrefix(k, "lenle:") {
			p := strings.SplitN(k[len("lenle:"):], "|", 2)
			if len(p) == 2 && n["lenle:"+p[1]+"|"+p[0]] {
				q := []string{p[0], p[1]}
				sort.Strings(q)
				n["leneq:"+q[0]+"|"+q[1]] = true
			}
		}
	}
	return n
}

func (f Facts) without(name string) Facts {
	n := make(Facts, len(f))
	for k := range f {
		if !mentionsIdent(k, name) {
			n[k] = true
		}
	}
	return n
}

func mentionsIdent(s, name string) bool {
	for i := 0; i+len(name) <= len(s); i++ {
		if s[i:i+len(name)] == name {
			before := i == 0 || !isIdentByte(s[i-1])
			after := i+len(name) == len(s) || !isIdentByte(s[i+len(name)])
			if before && after {
				return true
			}
		}
	}
	return false
}

// canon renders an expression canonically (parentheses dropped where they do not matter for identity).
func canon(e ast.Expr) string {
	switch x := e.(type) {
	case *ast.ParenExpr:
		return canon(x.X)
	case *ast.Ident:
		return x.Name
	case *ast.BasicLit:
		return x.Value
	case *ast.StarExpr:
		return "*(" + canon(x.X) + ")"
	case *ast.UnaryExpr:
		return x.Op.String() + "(" + canon(x.X) + ")"
	case *ast.SelectorExpr:
		return canon(x.X) + "." + x.Sel.Name
	case *ast.IndexExpr:
		return canon(x.X) + "[" + canon(x.Index) + "]"
	case *ast.SliceExpr:
		s := canon(x.X) + "["
		if x.Low != nil {
			s += canon(x.Low)
		}
		s += ":"
		if x.High != nil {
			s += canon(x.High)
		}
		return s + "]"
	case *ast.CallExpr:
		ss := []string{}
		for _, a := range x.Args {
			ss = append(ss, canon(a))
		}
		return canon(x.Fun) + "(" + strings.Join(ss, ",") + ")"
	case *ast.BinaryExpr:
		return "(" + canon(x.X) + x.Op.String() + canon(x.Y) + ")"
	case *ast.FuncLit:
		return "func{…}"
	case *ast.CompositeLit:
		ss := []string{}
		for _, a := range x.Elts {
			ss = append(ss, canon(a))
		}
		t := ""
		if x.Type != nil {
			t = canon(x.Type)
		}
		return t + "{" + strings.Join(ss, ",") + "}"
	case *ast.KeyValueExpr:
		return canon(x.Key) + ":" + canon(x.Value)
	case *ast.ArrayType:
		if x.Len == nil {
			return "[]" + canon(x.Elt)
		}
		return "[" + canon(x.Len) + "]" + canon(x.Elt)
	case *ast.MapType:
		return "map[" + canon(x.Key) + "]" + canon(x.Value)
	case *ast.ChanType:
		return "chan " + canon(x.Value)
	case *ast.TypeAssertExpr:
		return canon(x.X) + ".(type)"
	}
	return "?"
}

func isNilLit(e ast.Expr) bool {
	id, ok := unparen(e).(*ast.Ident)
	return ok && id.Name == "nil"
}

func unparen(e ast.Expr) ast.Expr {
	for {
		p, ok := e.(*ast.ParenExpr)
		if !ok {
			return e
		}
		e = p.X
	}
}

// condFacts derives the facts implied by cond being true (positive) or false (!positive).
func condFacts(cond ast.Expr, positive bool) []string {
	cond = unparen(cond)
	switch x := cond.(type) {
	case *ast.UnaryExpr:
		if x.Op == token.NOT {
			return condFacts(x.X, !positive)
		}
	case *ast.BinaryExpr:
		switch x.Op {
		case token.LAND:
			if positive {
				return append(condFacts(x.X, true), condFacts(x.Y, true)...)
			}
			return nil
		case token.LOR:
			if !positive {
				return append(condFacts(x.X, false), condFacts(x.Y, false)...)
			}
			return nil
		case token.EQL, token.NEQ:
			eq := (x.Op == token.EQL) == positive
			var other ast.Expr
			if isNilLit(x.Y) {
				other = x.X
			} else if isNilLit(x.X) {
				other = x.Y
			}
			if other != nil {
				if eq {
					return []string{"nil:" + canon(other)}
				}
				return []string{"nn:" + canon(other)}
			}
			// len(a) ==/!= len(b)
			if la, lb := lenArg(x.X), lenArg(x.Y); la != "" && lb != "" {
				if eq {
					p := []string{la, lb}
					sort.Strings(p)
					return []string{"leneq:" + p[0] + "|" + p[1]}
				}
				return nil
			}
			// len(a) ==/!= 0: non-emptiness
			if la := lenArg(x.X); la != "" {
				if bl, ok := unparen(x.Y).(*ast.BasicLit); ok && bl.Value == "0" {
					if !eq {
						return []string{"nonempty:" + la}
					}
					return []string{"eq:0|len(" + la + ")"}
				}
			}
			// len(a) == 0 etc. and general equalities
			if eq {
				p := []string{canon(x.X), canon(x.Y)}
				sort.Strings(p)
				return []string{"eq:" + p[0] + "|" + p[1]}
			}
			return nil
		}
	}
	// len(a) < len(b) and its relatives: what the outcome says about the order of the two lengths
	if be, ok := cond.(*ast.BinaryExpr); ok {
		if la, lb := lenArg(be.X), lenArg(be.Y); la != "" && lb != "" {
			op := be.Op
			if !positive {
				switch op {
				case token.LSS:
					op = token.GEQ
				case token.LEQ:
					op = token.GTR
				case token.GTR:
					op = token.LEQ
				case token.GEQ:
					op = token.LSS
				}
			}
			var out []string
			switch op {
			case token.LEQ, token.LSS:
				out = append(out, "lenle:"+la+"|"+lb)
			case token.GEQ, token.GTR:
				out = append(out, "lenle:"+lb+"|"+la)
			}
			if positive {
				out = append(out, "t:"+canon(cond))
			} else {
				out = append(out, "f:"+canon(cond))
			}
			return out
		}
	}
	// len(a) > 0, len(a) >= 1, 0 < len(a)
	if be, ok := cond.(*ast.BinaryExpr); ok {
		if la := lenArg(be.X); la != "" {
			if bl, ok := unparen(be.Y).(*ast.BasicLit); ok {
				switch {
				case positive && (be.Op == token.GTR && bl.Value == "0" || be.Op == token.GEQ && bl.Value == "1"):
					return []string{"nonempty:" + la, "t:" + canon(cond)}
				case !positive && (be.Op == token.LSS && bl.Value == "1" || be.Op == token.LEQ && bl.Value == "0"):
					return []string{"nonempty:" + la, "f:" + canon(cond)}
				}
			}
		}
	}
	if positive {
		return []string{"t:" + canon(cond)}
	}
	return []string{"f:" + canon(cond)}
}

func lenArg(e ast.Expr) string {
	c, ok := unparen(e).(*ast.CallExpr)
	if !ok || len(c.Args) != 1 {
		return ""
	}
	if id, ok := c.Fun.(*ast.Ident); ok && id.Name == "len" {
		return canon(c.Args[0])
	}
	return ""
}

func stmtsTerminate(list []ast.Stmt) bool {
	if len(list) == 0 {
		return false
	}
	switch x := list[len(list)-1].(type) {
	case *ast.ReturnStmt:
		return true
	case *ast.BranchStmt:
		return true
	case *ast.ExprStmt:
		if c, ok := x.X.(*ast.CallExpr); ok {
			if id, ok := c.Fun.(*ast.Ident); ok && id.Name == "panic" {
				return true
			}
		}
	case *ast.BlockStmt:
		return stmtsTerminate(x.List)
	case *ast.IfStmt:
		if x.Else == nil {
			return false
		}
		var els []ast.Stmt
		switch e := x.Else.(type) {
		case *ast.BlockStmt:
			els = e.List
		case *ast.IfStmt:
			els = []ast.Stmt{e}
		}
		return stmtsTerminate(x.Body.List) && stmtsTerminate(els)
	}
	return false
}

// guardWalker walks a residual function computing the guard set at every expression and statement.
type guardWalker struct {
	onExpr func(e ast.Expr, f Facts, stack []ast.Node) // every expression node, pre-order
	onStmt func(s ast.Stmt, f Facts)
	stack  []ast.Node
}

func (w *guardWalker) block(list []ast.Stmt, f Facts) Facts {
	for _, s := range list {
		f = w.stmt(s, f)
	}
	return f
}

func (w *guardWalker) stmt(s ast.Stmt, f Facts) Facts {
	if w.onStmt != nil {
		w.onStmt(s, f)
	}
	w.stack = append(w.stack, s)
	defer func() { w.stack = w.stack[:len(w.stack)-1] }()
	switch x := s.(type) {
	case *ast.ExprStmt:
		w.expr(x.X, f)
	case *ast.SendStmt:
		w.expr(x.Chan, f)
		w.expr(x.Value, f)
	case *ast.IncDecStmt:
		w.expr(x.X, f)
		if id, ok := x.X.(*ast.Ident); ok {
			f = f.without(id.Name)
		}
	case *ast.AssignStmt:
		for _, r := range x.Rhs {
			w.expr(r, f)
		}
		for _, l := range x.Lhs {
			if _, isId := l.(*ast.Ident); !isId {
				w.expr(l, f)
			}
		}
		for _, l := range x.Lhs {
			if id, ok := l.(*ast.Ident); ok && id.Name != "_" {
				f = f.without(id.Name)
			}
		}
		// x := make(...)/new(...)/&T{} is non-nil
		if len(x.Lhs) == len(x.Rhs) {
			for i, l := range x.Lhs {
				if id, ok := l.(*ast.Ident); ok && isFresh(x.Rhs[i]) {
					f = f.with([]string{"nn:" + id.Name})
				}
			}
		}
	case *ast.DeclStmt:
		ast.Inspect(x, func(n ast.Node) bool {
			if vs, ok := n.(*ast.ValueSpec); ok {
				for _, v := range vs.Values {
					w.expr(v, f)
				}
			}
			return true
		})
	case *ast.ReturnStmt:
		for _, r := range x.Results {
			w.expr(r, f)
		}
	case *ast.BlockStmt:
		w.block(x.List, f)
	case *ast.IfStmt:
		if x.Init != nil {
			f = w.stmt(x.Init, f)
		}
		w.expr(x.Cond, f)
		w.block(x.Body.List, f.with(condFacts(x.Cond, true)))
		var els []ast.Stmt
		switch e := x.Else.(type) {
		case *ast.BlockStmt:
			els = e.List
		case *ast.IfStmt:
			els = []ast.Stmt{e}
		}
		if els != nil {
			w.block(els, f.with(condFacts(x.Cond, false)))
		}
		bt, et := stmtsTerminate(x.Body.List), els != nil && stmtsTerminate(els)
		switch {
		case bt && !et:
			f = f.with(condFacts(x.Cond, false))
		case et && !bt:
			f = f.with(condFacts(x.Cond, true))
		}
		// variables assigned in either branch lose their facts
		for _, nm := range assignedIn(x.Body) {
			if !bt {
				f = f.without(nm)
			}
		}
		if x.Else != nil && !et {
			for _, nm := range assignedIn(x.Else) {
				f = f.without(nm)
			}
		}
	case *ast.ForStmt:
		if x.Init != nil {
			f = w.stmt(x.Init, f)
		}
		inner := f
		for _, nm := range assignedIn(x.Body) {
			inner = inner.without(nm)
		}
		if x.Post != nil {
			for _, nm := range assignedIn(x.Post) {
				inner = inner.without(nm)
			}
		}
		if x.Cond != nil {
			w.expr(x.Cond, inner)
			w.block(x.Body.List, inner.with(condFacts(x.Cond, true)))
		} else {
			w.block(x.Body.List, inner)
		}
		if x.Post != nil {
			w.stmt(x.Post, inner)
		}
		f = inner
	case *ast.RangeStmt:
		w.expr(x.X, f)
		inner := f
		for _, nm := range assignedIn(x.Body) {
			inner = inner.without(nm)
		}
		for _, kv := range []ast.Expr{x.Key, x.Value} {
			if id, ok := kv.(*ast.Ident); ok {
				inner = inner.without(id.Name)
			}
		}
		// inside `for k, v := range m`: k is a key of m
		if id, ok := x.Key.(*ast.Ident); ok && id.Name != "_" {
			inner = inner.with([]string{"keyof:" + id.Name + "|" + canon(x.X)})
		}
		w.block(x.Body.List, inner)
		f = inner
	case *ast.SwitchStmt:
		if x.Init != nil {
			f = w.stmt(x.Init, f)
		}
		if x.Tag != nil {
			w.expr(x.Tag, f)
		}
		for _, cc := range x.Body.List {
			c := cc.(*ast.CaseClause)
			for _, e := range c.List {
				w.expr(e, f)
			}
			w.block(c.Body, f)
		}
	case *ast.SelectStmt:
		for _, cc := range x.Body.List {
			c := cc.(*ast.CommClause)
			g := f
			if c.Comm != nil {
				g = w.stmt(c.Comm, f)
			}
			w.block(c.Body, g)
		}
	case *ast.GoStmt:
		w.expr(x.Call, f)
	case *ast.DeferStmt:
		w.expr(x.Call, f)
	case *ast.LabeledStmt:
		f = w.stmt(x.Stmt, f)
	}
	return f
}

func isFresh(e ast.Expr) bool {
	switch x := unparen(e).(type) {
	case *ast.CallExpr:
		if id, ok := x.Fun.(*ast.Ident); ok && (id.Name == "make" || id.Name == "new") {
			return true
		}
	case *ast.UnaryExpr:
		if x.Op == token.AND {
			_, isLit := unparen(x.X).(*ast.CompositeLit)
			return isLit
		}
	}
	return false
}

func assignedIn(n ast.Node) []string {
	var out []string
	ast.Inspect(n, func(m ast.Node) bool {
		switch x := m.(type) {
		case *ast.FuncLit:
			return false
		case *ast.AssignStmt:
			for _, l := range x.Lhs {
				if id, ok := l.(*ast.Ident); ok {
					out = append(out, id.Name)
				}
			}
		case *ast.IncDecStmt:
			if id, ok := x.X.(*ast.Ident); ok {
				out = append(out, id.Name)
			}
		case *ast.RangeStmt:
			for _, kv := range []ast.Expr{x.Key, x.Value} {
				if id, ok := kv.(*ast.Ident); ok {
					out = append(out, id.Name)
				}
			}
		}
		return true
	})
	return out
}

func (w *guardWalker) expr(e ast.Expr, f Facts) {
	if e == nil {
		return
	}
	if w.onExpr != nil {
		w.onExpr(e, f, w.stack)
	}
	w.stack = append(w.stack, e)
	defer func() { w.stack = w.stack[:len(w.stack)-1] }()
	switch x := e.(type) {
	case *ast.ParenExpr:
		w.expr(x.X, f)
	case *ast.BinaryExpr:
		w.expr(x.X, f)
		switch x.Op {
		case token.LAND:
			w.expr(x.Y, f.with(condFacts(x.X, true)))
		case token.LOR:
			w.expr(x.Y, f.with(condFacts(x.X, false)))
		default:
			w.expr(x.Y, f)
		}
	case *ast.UnaryExpr:
		w.expr(x.X, f)
	case *ast.StarExpr:
		w.expr(x.X, f)
	case *ast.SelectorExpr:
		w.expr(x.X, f)
	case *ast.IndexExpr:
		w.expr(x.X, f)
		w.expr(x.Index, f)
	case *ast.SliceExpr:
		w.expr(x.X, f)
		w.expr(x.Low, f)
		w.expr(x.High, f)
		w.expr(x.Max, f)
	case *ast.CallExpr:
		w.expr(x.Fun, f)
		for _, a := range x.Args {
			w.expr(a, f)
		}
	case *ast.CompositeLit:
		for _, el := range x.Elts {
			w.expr(el, f)
		}
	case *ast.KeyValueExpr:
		w.expr(x.Value, f)
	case *ast.TypeAssertExpr:
		w.expr(x.X, f)
	case *ast.FuncLit:
		w.block(x.Body.List, f)
	}
}

// defEntry is one definition of a local with the source range in which it is visible.
type defEntry struct {
	expr   ast.Expr
	lo, hi token.Pos
}

// Defs maps a local name to its definitions (same name may be defined in several disjoint scopes).
type Defs map[string][]defEntry

func (d Defs) lookup(name string, pos token.Pos) (ast.Expr, bool) {
	var best *defEntry
	for i := range d[name] {
		e := &d[name][i]
		if e.lo <= pos && pos < e.hi {
			if best == nil || e.lo > best.lo {
				best = e
			}
		}
	}
	if best == nil || best.expr == nil {
		return nil, false
	}
	return best.expr, true
}

// localDefs collects the locals of a function that are assigned exactly once within their scope: name -> defining
// expression. Range value variables are defined as an index expression into the ranged operand
// (`for k, v := range m` gives v = m[k]).
func localDefs(fn ast.Node) Defs {
	defs := Defs{}
	var stack []ast.Node
	scopeEnd := func() token.Pos {
		for i := len(stack) - 1; i >= 0; i-- {
			switch b := stack[i].(type) {
			case *ast.BlockStmt:
				return b.End()
			case *ast.CaseClause:
				return b.End()
			case *ast.CommClause:
				return b.End()
			}
		}
		return fn.End()
	}
	add := func(name string, e ast.Expr, lo, hi token.Pos) {
		if name == "_" {
			return
		}
		defs[name] = append(defs[name], defEntry{e, lo, hi})
	}
	type reassign struct {
		name string
		pos  token.Pos
	}
	var re []reassign
	ast.Inspect(fn, func(n ast.Node) bool {
		if n == nil {
			stack = stack[:len(stack)-1]
			return true
		}
		switch x := n.(type) {
		case *ast.AssignStmt:
			// an if/for/switch init statement is visible in the whole statement
			hi := scopeEnd()
			if len(stack) > 0 {
				switch p := stack[len(stack)-1].(type) {
				case *ast.IfStmt:
					if p.Init == ast.Stmt(x) {
						hi = p.End()
					}
				case *ast.ForStmt:
					if p.Init == ast.Stmt(x) {
						hi = p.End()
					}
				case *ast.SwitchStmt:
					if p.Init == ast.Stmt(x) {
						hi = p.End()
					}
				}
			}
			for i, l := range x.Lhs {
				id, ok := l.(*ast.Ident)
				if !ok {
					continue
				}
				if x.Tok == token.DEFINE {
					var e ast.Expr
					if len(x.Rhs) == len(x.Lhs) {
						e = x.Rhs[i]
					} else if len(x.Rhs) == 1 && i == 0 {
						e = x.Rhs[0] // v, ok := m[k]
					}
					add(id.Name, e, x.End(), hi)
				} else {
					re = append(re, reassign{id.Name, x.Pos()})
				}
			}
		case *ast.IncDecStmt:
			if id, ok := x.X.(*ast.Ident); ok {
				re = append(re, reassign{id.Name, x.Pos()})
			}
		case *ast.RangeStmt:
			if x.Tok == token.DEFINE {
				if id, ok := x.Value.(*ast.Ident); ok {
					var key ast.Expr = ast.NewIdent("_")
					if x.Key != nil {
						key = x.Key
					}
					add(id.Name, &ast.IndexExpr{X: x.X, Index: key}, x.Body.Pos(), x.Body.End())
				}
				if id, ok := x.Key.(*ast.Ident); ok {
					add(id.Name, nil, x.Body.Pos(), x.Body.End())
				}
			}
		}
		stack = append(stack, n)
		return true
	})
	// a definition that is re-assigned within its scope is not a stable alias
	for _, r := range re {
		for i := range defs[r.name] {
			e := &defs[r.name][i]
			if e.lo <= r.pos && r.pos < e.hi {
				e.expr = nil
			}
		}
	}
	return defs
}

// expand substitutes single-assignment locals by their definitions (bounded depth).
func expand(e ast.Expr, defs Defs, depth int) ast.Expr {
	if depth > 6 || e == nil {
		return e
	}
	switch x := e.(type) {
	case *ast.Ident:
		if x.Pos().IsValid() {
			if d, ok := defs.lookup(x.Name, x.Pos()); ok {
				return expand(d, defs, depth+1)
			}
		}
		return x
	case *ast.ParenExpr:
		return &ast.ParenExpr{X: expand(x.X, defs, depth)}
	case *ast.StarExpr:
		return &ast.StarExpr{X: expand(x.X, defs, depth)}
	case *ast.UnaryExpr:
		return &ast.UnaryExpr{Op: x.Op, X: expand(x.X, defs, depth)}
	case *ast.SelectorExpr:
		return &ast.SelectorExpr{X: expand(x.X, defs, depth), Sel: x.Sel}
	case *ast.IndexExpr:
		return &ast.IndexExpr{X: expand(x.X, defs, depth), Index: expand(x.Index, defs, depth)}
	case *ast.SliceExpr:
		return &ast.SliceExpr{X: expand(x.X, defs, depth), Low: expand(x.Low, defs, depth), High: expand(x.High, defs, depth)}
	case *ast.CallExpr:
		c := &ast.CallExpr{Fun: expand(x.Fun, defs, depth)}
		for _, a := range x.Args {
			c.Args = append(c.Args, expand(a, defs, depth))
		}
		return c
	case *ast.BinaryExpr:
		return &ast.BinaryExpr{X: expand(x.X, defs, depth), Op: x.Op, Y: expand(x.Y, defs, depth)}
	}
	return e
}

// roots returns which of the given root names an (expanded) expression mentions.
func rootsOf(e ast.Expr, roots map[string]bool) map[string]bool {
	out := map[string]bool{}
	ast.Inspect(e, func(n ast.Node) bool {
		if id, ok := n.(*ast.Ident); ok && roots[id.Name] {
			out[id.Name] = true
		}
		if sel, ok := n.(*ast.SelectorExpr); ok {
			// do not look at the selected name
			ast.Inspect(sel.X, func(m ast.Node) bool {
				if id, ok := m.(*ast.Ident); ok && roots[id.Name] {
					out[id.Name] = true
				}
				return true
			})
			return false
		}
		return true
	})
	return out
}

// normSide renders an expanded expression with every root replaced by §.
func normSide(e ast.Expr, roots map[string]bool) string {
	s := canon(e)
	var names []string
	for r := range roots {
		names = append(names, r)
	}
	sort.Slice(names, func(i, j int) bool { return len(names[i]) > len(names[j]) })
	for _, nm := range names {
		s = replaceIdent(s, nm, "§")
	}
	return s
}

func replaceIdent(s, name, with string) string {
	var b strings.Builder
	for i := 0; i < len(s); {
		if i+len(name) <= len(s) && s[i:i+len(name)] == name {
			before := i == 0 || !isIdentByte(s[i-1])
			after := i+len(name) == len(s) || !isIdentByte(s[i+len(name)])
			if before && after {
				b.WriteString(with)
				i += len(name)
				continue
			}
		}
		b.WriteByte(s[i])
		i++
	}
	return b.String()
}
