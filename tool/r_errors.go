package main

import (
	"fmt"
	"go/ast"
	"go/token"
	"sort"
	"strings"
)

// C16 — error-propagating helpers (R13): compose, fmap (error form), join (error form), traverse, toerror.

func isErrorTypeExpr(rsExpr ast.Expr) bool {
	id, ok := rsExpr.(*ast.Ident)
	return ok && id.Name == "error"
}

// stageParams: function-typed parameters of fn -> whether their last result is `error`, and number of results.
type stageInfo struct {
	fallible bool
	nres     int
}

func stagesOf(fn *ast.FuncDecl) map[string]stageInfo {
	out := map[string]stageInfo{}
	for _, f := range fn.Type.Params.List {
		ft, ok := f.Type.(*ast.FuncType)
		if !ok {
			continue
		}
		si := stageInfo{}
		if ft.Results != nil {
			for _, r := range ft.Results.List {
				k := len(r.Names)
				if k == 0 {
					k = 1
				}
				si.nres += k
			}
			last := ft.Results.List[len(ft.Results.List)-1].Type
			si.fallible = isErrorTypeExpr(last)
		}
		for _, n := range f.Names {
			out[n.Name] = si
		}
	}
	return out
}

// zeroLiteralIssue explains why e is not the zero value of its type ("" if it is).
// unassignedNamedResult: the identifier is a named result of a function (literal) of the residual that nothing assigns, takes the
// address of or increments: it holds the zero value of its type wherever it is mentioned.
func unassignedNamedResult(rs *Resid, e ast.Expr) bool {
	id, ok := unparen(e).(*ast.Ident)
	if !ok || rs.File == nil {
		return false
	}
	isResult, touched := false, false
	ast.Inspect(rs.File, func(n ast.Node) bool {
		switch x := n.(type) {
		case *ast.FuncType:
			if x.Results != nil {
				for _, f := range x.Results.List {
					for _, nm := range f.Names {
						if nm.Name == id.Name {
							isResult = true
						}
					}
				}
			}
		case *ast.AssignStmt:
			for _, l := range x.Lhs {
				if canon(l) == id.Name {
					touched = true
				}
			}
		case *ast.IncDecStmt:
			if canon(x.X) == id.Name {
				touched = true
			}
		case *ast.UnaryExpr:
			if x.Op == token.AND && canon(x.X) == id.Name {
				touched = true
			}
		case *ast.RangeStmt:
			if (x.Key != nil && canon(x.Key) == id.Name) || (x.Value != nil && canon(x.Value) == id.Name) {
				touched = true
			}
		}
		return true
	})
	return isResult && !touched
}

func zeroLiteralIssue(rs *Resid, e ast.Expr) string {
	if unassignedNamedResult(rs, e) {
		return ""
	}
	if cl, ok := unparen(e).(*ast.CompositeLit); ok && len(cl.Elts) == 0 {
		switch t := cl.Type.(type) {
		case *ast.ArrayType:
			if t.Len == nil {
				return "an empty non-nil slice literal; the zero value of a slice is nil"
			}
		case *ast.MapType:
			return "an empty non-nil map literal; the zero value of a map is nil"
		case *ast.Ident:
			if h := rs.hole(t.Name); h != nil {
				switch k := kindOfVal(h.Val); k {
				case "*types.Slice", "*types.Map", "*types.Pointer", "*types.Chan", "*types.Signature", "*types.Interface":
					return "a composite literal of a " + strings.TrimPrefix(k, "*types.") + " type; its zero value is nil"
				case "*types.Struct", "*types.Array":
					return ""
				default:
					// kind not established: a composite literal is the zero value only if slices and maps were ruled out
					excluded := map[string]bool{}
					if u := underlyingVal(h.Val); u != nil {
						for _, nk := range u.notKinds {
							excluded[nk] = true
						}
					}
					if !excluded["*types.Slice"] || !excluded["*types.Map"] {
						return "a composite literal for a type that may be a slice or a map on this path; their zero value is nil, not an empty non-nil value"
					}
				}
			}
		}
		return ""
	}
	if isZeroLiteral(e) {
		return ""
	}
	return "not a zero literal"
}

func isZeroLiteral(e ast.Expr) bool {
	switch x := unparen(e).(type) {
	case *ast.BasicLit:
		return x.Value == `""` || x.Value == "0" || x.Value == "0.0" || x.Value == "``"
	case *ast.Ident:
		return x.Name == "nil" || x.Name == "false"
	case *ast.CompositeLit:
		return len(x.Elts) == 0
	case *ast.StarExpr:
		// *new(T)
		if c, ok := x.X.(*ast.CallExpr); ok {
			if id, ok := c.Fun.(*ast.Ident); ok && id.Name == "new" {
				return true
			}
		}
	}
	return false
}

func stageCallee(e ast.Expr, stages map[string]stageInfo) (string, *ast.CallExpr) {
	c, ok := unparen(e).(*ast.CallExpr)
	if !ok {
		return "", nil
	}
	id, ok := c.Fun.(*ast.Ident)
	if !ok {
		return "", nil
	}
	if _, isStage := stages[id.Name]; isStage {
		return id.Name, c
	}
	return "", nil
}

// chainIssues analyses a straight-line error chain body.
func chainIssues(rs *Resid, fn *ast.FuncDecl, body *ast.BlockStmt, stages map[string]stageInfo, inputs []string, errParams map[string]bool) []sideIssue {
	var out []sideIssue
	iss := func(n ast.Node, kind, format string, a ...interface{}) {
		out = append(out, sideIssue{n, fmt.Sprintf(format, a...), kind, ""})
	}
	called := map[string]int{}
	errTests := map[*ast.IfStmt]bool{}  // the test of a stage's error that immediately follows its call
	checked := map[*ast.CallExpr]bool{} // stage calls in a checked position
	var order []string
	prevVals := inputs // values that must feed the next stage
	for i := 0; i < len(body.List); i++ {
		st := body.List[i]
		switch x := st.(type) {
		case *ast.AssignStmt:
			if len(x.Rhs) != 1 {
				continue
			}
			name, call := stageCallee(x.Rhs[0], stages)
			if call == nil {
				continue
			}
			called[name]++
			order = append(order, name)
			checked[call] = true
			si := stages[name]
			lhs, _ := identNames(x.Lhs)
			// argument flow
			args, okA := identNames(call.Args)
			if !okA || !eqStrings(args, prevVals) {
				iss(call, "arg-flow", "stage %s is called with %v; the values available from the previous step, in order, are %v", name, args, prevVals)
			}
			if si.fallible {
				if len(lhs) == 0 {
					iss(x, "shape", "results of %s are not bound to variables", name)
					continue
				}
				ev := lhs[len(lhs)-1]
				prevVals = lhs[:len(lhs)-1]
				// must be followed by `if ev != nil { return zeros…, ev }`
				okCheck := false
				if i+1 < len(body.List) {
					if ifs, ok := body.List[i+1].(*ast.IfStmt); ok && ifs.Else == nil && ifs.Init == nil {
						if be, ok := unparen(ifs.Cond).(*ast.BinaryExpr); ok && be.Op == token.NEQ && isNilLit(be.Y) && canon(be.X) == ev && len(ifs.Body.List) == 1 {
							if ret, ok := ifs.Body.List[0].(*ast.ReturnStmt); ok && len(ret.Results) >= 1 {
								okCheck = true
								errTests[ifs] = true
								if canon(ret.Results[len(ret.Results)-1]) != ev {
									iss(ret, "wrong-error", "on failure of %s returns %s instead of that stage's error %s", name, rs.src(ret.Results[len(ret.Results)-1]), ev)
								}
								for _, r := range ret.Results[:len(ret.Results)-1] {
									if why := zeroLiteralIssue(rs, r); why != "" {
										iss(ret, "non-zero-on-failure", "on failure of %s returns %s next to the error (%s); every non-error result must be the zero value of its type", name, rs.src(r), why)
									}
								}
							}
						}
					}
				}
				if !okCheck {
					iss(x, "unchecked-stage", "the error of stage %s is not tested immediately after the call: a later stage may run, or the wrong error be returned", name)
				}
			} else {
				prevVals = lhs
			}
		case *ast.ExprStmt:
			name, call := stageCallee(x.X, stages)
			if call == nil {
				continue
			}
			called[name]++
			order = append(order, name)
			checked[call] = true
			if stages[name].fallible || stages[name].nres > 0 {
				iss(x, "results-dropped", "the results of stage %s are dropped", name)
			}
			args, okA := identNames(call.Args)
			if !okA || !eqStrings(args, prevVals) {
				iss(call, "arg-flow", "stage %s is called with %v; the values available from the previous step, in order, are %v", name, args, prevVals)
			}
			prevVals = nil
		case *ast.IfStmt:
			// the chain is left only where a stage has failed (or a supplied error is set): any other conditional exit — "no value to
			// go on with", a cached answer — ends it on a path with no failure, so the remaining stages are not applied and their
			// errors never surface
			isErrParamTest := false
			if be, ok := unparen(x.Cond).(*ast.BinaryExpr); ok && be.Op == token.NEQ && isNilLit(be.Y) && errParams[canon(be.X)] {
				isErrParamTest = true
			}
			if !errTests[x] && !isErrParamTest {
				var exit ast.Node
				ast.Inspect(x, func(m ast.Node) bool {
					switch y := m.(type) {
					case *ast.FuncLit:
						return false
					case *ast.ReturnStmt:
						if exit == nil {
							exit = y
						}
					case *ast.BranchStmt:
						if exit == nil && y.Tok == token.GOTO {
							exit = y
						}
					}
					return true
				})
				if exit != nil {
					var pending []string
					for nm := range stages {
						if called[nm] == 0 {
							pending = append(pending, nm)
						}
					}
					sort.Strings(pending)
					if len(pending) > 0 {
						iss(exit, "early-exit", "leaves the chain under `%s`, which is not the failure of a stage: on that path the stage(s) %v are never applied although nothing has failed", rs.src(x.Cond), pending)
					}
				}
			}
			// join: `if err != nil { return zeros…, err }` on an error parameter
			if be, ok := unparen(x.Cond).(*ast.BinaryExpr); ok && be.Op == token.NEQ && isNilLit(be.Y) && errParams[canon(be.X)] && len(x.Body.List) == 1 && x.Else == nil {
				if ret, ok := x.Body.List[0].(*ast.ReturnStmt); ok && len(ret.Results) >= 1 {
					if canon(ret.Results[len(ret.Results)-1]) != canon(be.X) {
						iss(ret, "wrong-error", "returns %s instead of the supplied error", rs.src(ret.Results[len(ret.Results)-1]))
					}
					for _, r := range ret.Results[:len(ret.Results)-1] {
						if why := zeroLiteralIssue(rs, r); why != "" {
							iss(ret, "non-zero-on-failure", "returns %s next to the supplied error (%s); every non-error result must be the zero value", rs.src(r), why)
						}
					}
				}
			}
		case *ast.ReturnStmt:
			// final return
			if len(x.Results) == 1 {
				if name, call := stageCallee(x.Results[0], stages); call != nil && stages[name].fallible {
					called[name]++
					order = append(order, name)
					checked[call] = true
					args, okA := identNames(call.Args)
					if !okA || !eqStrings(args, prevVals) {
						iss(call, "arg-flow", "stage %s is called with %v; the values available from the previous step, in order, are %v", name, args, prevVals)
					}
					iss(x, "tail-call", "returns the call of the failing-capable stage %s directly: when it fails, whatever it returned next to its error reaches the caller instead of zero values", name)
					continue
				}
			}
			if len(x.Results) >= 1 && fnReturnsError(fn, body) {
				last := x.Results[len(x.Results)-1]
				if !isNilLit(last) {
					iss(x, "final-error", "the success path returns %s as error instead of nil", rs.src(last))
				}
				vals := x.Results[:len(x.Results)-1]
				// values: the previous step's variables in order, or calls of infallible stages on them
				var got []string
				for _, v := range vals {
					if name, call := stageCallee(v, stages); call != nil {
						called[name]++
						order = append(order, name)
						checked[call] = true
						args, _ := identNames(call.Args)
						if !eqStrings(args, prevVals) {
							iss(call, "arg-flow", "stage %s is called with %v; the values available from the previous step, in order, are %v", name, args, prevVals)
						}
						got = nil
						prevVals = nil
						continue
					}
					// helper(f(v)) — fmap's tuple form: a FUNC hole wrapping the stage call
					if c, ok := unparen(v).(*ast.CallExpr); ok && funcHoleWho(rs, c.Fun) != "" && len(c.Args) == 1 {
						if name, call := stageCallee(c.Args[0], stages); call != nil {
							called[name]++
							order = append(order, name)
							checked[call] = true
							args, _ := identNames(call.Args)
							if !eqStrings(args, prevVals) {
								iss(call, "arg-flow", "stage %s is called with %v; the values available from the previous step, in order, are %v", name, args, prevVals)
							}
							prevVals = nil
							continue
						}
					}
					got = append(got, canon(v))
				}
				if got != nil && !eqStrings(got, prevVals) {
					iss(x, "final-values", "the success path returns %v; the last stage produced %v", got, prevVals)
				}
			}
		}
	}
	// every stage exactly once, none in an unchecked position (nested expression, closure, loop)
	ast.Inspect(body, func(n ast.Node) bool {
		c, ok := n.(*ast.CallExpr)
		if !ok {
			return true
		}
		if name, call := stageCallee(c, stages); call != nil && !checked[call] {
			called[name]++
			inLit := false
			ast.Inspect(body, func(m ast.Node) bool {
				if l, ok := m.(*ast.FuncLit); ok && containsNode(l, call) {
					inLit = true
				}
				return true
			})
			if inLit {
				iss(call, "deferred-stage", "stage %s is called inside a function literal: it is evaluated when (and as often as) that closure is invoked, not once, in order, when the helper runs", name)
			} else {
				iss(call, "stray-stage", "stage %s is called outside the straight-line chain", name)
			}
		}
		return true
	})
	for name := range stages {
		if called[name] != 1 {
			iss(fn, "stage-count", "stage %s is called %d times (expected exactly once)", name, called[name])
		}
	}
	// a supplied error (join's err parameter) is a stage that has already failed: nil may be returned as error only where
	// every supplied error has been established to be nil
	if len(errParams) > 0 && fnReturnsError(fn, body) {
		ast.Inspect(body, func(n ast.Node) bool {
			if _, ok := n.(*ast.FuncLit); ok {
				return false
			}
			ret, ok := n.(*ast.ReturnStmt)
			if !ok || len(ret.Results) == 0 || !isNilLit(ret.Results[len(ret.Results)-1]) {
				return true
			}
			gs := guardsOf(body, ret)
			for e := range errParams {
				tested := false
				for _, g := range gs {
					be, ok := unparen(g.e).(*ast.BinaryExpr)
					if !ok || !isNilLit(be.Y) || canon(be.X) != e {
						continue
					}
					if (be.Op == token.NEQ && !g.pos) || (be.Op == token.EQL && g.pos) {
						tested = true
					}
				}
				if !tested {
					iss(ret, "supplied-error-lost", "returns a nil error on a path that has not established that the supplied error %s is nil: when the earlier stage failed, its error is swallowed and the caller sees zero values with no error", e)
				}
			}
			return true
		})
	}
	return out
}

func fnReturnsError(fn *ast.FuncDecl, body *ast.BlockStmt) bool {
	var res *ast.FieldList
	if body == fn.Body {
		res = fn.Type.Results
	} else {
		ast.Inspect(fn.Body, func(n ast.Node) bool {
			if l, ok := n.(*ast.FuncLit); ok && l.Body == body {
				res = l.Type.Results
			}
			return true
		})
	}
	if res == nil || len(res.List) == 0 {
		return false
	}
	return isErrorTypeExpr(res.List[len(res.List)-1].Type)
}

func traverseIssues(rs *Resid, fn *ast.FuncDecl) []sideIssue {
	var out []sideIssue
	iss := func(n ast.Node, kind, format string, a ...interface{}) {
		out = append(out, sideIssue{n, fmt.Sprintf(format, a...), kind, ""})
	}
	names := fieldNames(fn.Type.Params)
	if len(names) != 2 {
		return []sideIssue{{fn, "traverse does not take (f, list)", "shape", ""}}
	}
	f, list := names[0], names[1]
	l := newListFn(rs, fn)
	out = append(out, l.loopShape(list, false, true)...)
	out = append(out, l.predicateOnce(f, list)...)
	if l.loop == nil {
		return out
	}
	// in the loop: out[i], err = f(elem); if err != nil { return nil, err }
	var errVar, acc string
	for i, st := range l.loop.Body.List {
		as, ok := st.(*ast.AssignStmt)
		if !ok || len(as.Rhs) != 1 || len(as.Lhs) != 2 {
			continue
		}
		if name, _ := stageCallee(as.Rhs[0], map[string]stageInfo{f: {}}); name == "" {
			continue
		}
		// every element is handed to f: nothing before the call may leave the iteration (a `continue` for an element that was
		// seen before reuses an earlier result — f is then not applied once per element, and a failure or side effect of the
		// repeat is lost)
		for _, before := range l.loop.Body.List[:i] {
			ast.Inspect(before, func(m ast.Node) bool {
				switch y := m.(type) {
				case *ast.FuncLit:
					return false
				case *ast.BranchStmt:
					iss(y, "element-skipped", "leaves the iteration (%s) before f is applied to the element: f is not called once for every element", y.Tok)
				case *ast.ReturnStmt:
					iss(y, "element-skipped", "returns before f is applied to the element")
				}
				return true
			})
		}
		errVar = canon(as.Lhs[1])
		if ix, ok := as.Lhs[0].(*ast.IndexExpr); ok {
			acc = canon(ix.X)
			if canon(ix.Index) != keyName(l.loop) {
				iss(as, "slot", "stores the result at %s instead of the element's own index", rs.src(ix.Index))
			}
		} else if rid, ok := as.Lhs[0].(*ast.Ident); ok && rid.Name != "_" {
			// res, err := f(elem); if err != nil { ... }; out[i] = res — the result is bound first and stored, unconditionally
			// and exactly once, after the error test
			stored := 0
			for _, later := range l.loop.Body.List[i+1:] {
				st2, ok := later.(*ast.AssignStmt)
				if !ok || len(st2.Lhs) != 1 || len(st2.Rhs) != 1 || canon(st2.Rhs[0]) != rid.Name {
					continue
				}
				if ix, ok := st2.Lhs[0].(*ast.IndexExpr); ok {
					stored++
					acc = canon(ix.X)
					if canon(ix.Index) != keyName(l.loop) {
						iss(st2, "slot", "stores the result at %s instead of the element's own index", rs.src(ix.Index))
					}
				}
			}
			if stored != 1 {
				iss(as, "slot", "does not store the result at the element's index")
			}
		} else {
			iss(as, "slot", "does not store the result at the element's index")
		}
		okCheck := false
		if i+1 < len(l.loop.Body.List) {
			if ifs, ok := l.loop.Body.List[i+1].(*ast.IfStmt); ok {
				if be, ok := unparen(ifs.Cond).(*ast.BinaryExpr); ok && be.Op == token.NEQ && isNilLit(be.Y) && canon(be.X) == errVar && len(ifs.Body.List) == 1 {
					if ret, ok := ifs.Body.List[0].(*ast.ReturnStmt); ok && len(ret.Results) == 2 {
						okCheck = true
						if !isNilLit(ret.Results[0]) {
							iss(ret, "non-zero-on-failure", "returns %s next to the error instead of a nil slice", rs.src(ret.Results[0]))
						}
						if canon(ret.Results[1]) != errVar {
							iss(ret, "wrong-error", "returns %s instead of the element's error", rs.src(ret.Results[1]))
						}
					}
				}
			}
		}
		if !okCheck {
			iss(as, "unchecked-stage", "the error of f is not tested immediately after the call inside the loop: later elements are still processed")
		}
	}
	if errVar == "" {
		iss(l.loop, "shape", "the loop does not call f and bind its error")
	}
	for _, r := range returnsIn(fn) {
		if l.inLoop(r) {
			continue
		}
		if len(r.Results) != 2 || canon(r.Results[0]) != acc || !isNilLit(r.Results[1]) {
			iss(r, "final-values", "the success path returns %s instead of (results, nil)", rs.src(r))
		}
	}
	return out
}

func toErrorIssues(rs *Resid, fn *ast.FuncDecl) []sideIssue {
	var out []sideIssue
	iss := func(n ast.Node, kind, format string, a ...interface{}) {
		out = append(out, sideIssue{n, fmt.Sprintf(format, a...), kind, ""})
	}
	names := fieldNames(fn.Type.Params)
	if len(names) != 2 {
		return []sideIssue{{fn, "toerror does not take (err, f)", "shape", ""}}
	}
	errP, f := names[0], names[1]
	chain, body := closureChain(fn)
	if len(chain) != 1 {
		return []sideIssue{{fn, "toerror does not return a single closure", "shape", ""}}
	}
	binders := fieldNames(chain[0].Type.Params)
	var outs []string
	var okVar string
	ncalls := 0
	for _, st := range body.List {
		as, ok := st.(*ast.AssignStmt)
		if !ok || len(as.Rhs) != 1 {
			continue
		}
		if name, call := stageCallee(as.Rhs[0], map[string]stageInfo{f: {}}); name != "" {
			ncalls++
			args, _ := identNames(call.Args)
			if !eqStrings(args, binders) {
				iss(call, "arg-order", "calls f with %v; the closure's parameters, in order, are %v", args, binders)
			}
			lhs, _ := identNames(as.Lhs)
			if len(lhs) == 0 {
				iss(as, "shape", "results of f are not bound")
				continue
			}
			okVar = lhs[len(lhs)-1]
			outs = lhs[:len(lhs)-1]
		}
	}
	n := 0
	ast.Inspect(body, func(x ast.Node) bool {
		if id, ok := x.(*ast.Ident); ok && id.Name == f {
			n++
		}
		return true
	})
	if ncalls != 1 || n != 1 {
		iss(fn, "call-count", "f is called %d times (referenced %d times); expected exactly once", ncalls, n)
		return out
	}
	for _, r := range returnsIn(&ast.FuncDecl{Body: body}) {
		if len(r.Results) != len(outs)+1 {
			iss(r, "result-count", "returns %d values; f has %d results besides the bool", len(r.Results), len(outs))
			continue
		}
		vals, _ := identNames(r.Results[:len(outs)])
		if !eqStrings(vals, outs) {
			iss(r, "pass-through", "returns %v instead of f's other results %v unchanged and in order", vals, outs)
		}
		last := r.Results[len(r.Results)-1]
		gs := guardsOf(body, r)
		success := hasGuard(gs, true, func(e ast.Expr) bool { return canon(e) == okVar })
		failure := hasGuard(gs, false, func(e ast.Expr) bool { return canon(e) == okVar })
		switch {
		case isNilLit(last):
			if !success {
				iss(r, "nil-unguarded", "returns a nil error although f's bool result was not established true")
			}
		case canon(last) == errP:
			if !failure {
				iss(r, "err-unguarded", "returns the supplied error although f's bool result was not established false")
			}
		default:
			iss(r, "wrong-error", "returns %s as error; it must be nil on success and exactly the supplied error otherwise", rs.src(last))
		}
	}
	return out
}

func runR_C16(c *Ctx) {
	ps := []string{"compose", "fmap", "join", "traverse", "toerror"}
	sweepHealth(c, ps...)
	rR1(c, ps...)
	rR2(c, ps...)
	rConstIndex(c, ps...)
	counts := map[string]int{}
	for _, p := range ps {
		for _, rs := range c.acceptedResids(p) {
			if rs.Err != nil || len(rs.Funcs) != 1 {
				continue
			}
			fn := rs.Funcs[0]
			// template identifiers (f0, f1, err, …) referenced under user-named binders can be captured by the user's names
			if p != "toerror" {
				if !reportIssues(c, rs, "R14", "", hygieneIssues(rs)) {
					continue
				}
			}
			// only the error forms: the function (or the closure it returns) has a trailing error result
			var issues []sideIssue
			switch p {
			case "traverse":
				issues = traverseIssues(rs, fn)
			case "toerror":
				issues = toErrorIssues(rs, fn)
				issues = append(issues, hygieneIssues(rs)...)
			default:
				chain, body := closureChain(fn)
				if !fnReturnsError(fn, body) {
					continue
				}
				stages := stagesOf(fn)
				if len(stages) == 0 {
					continue
				}
				errParams := map[string]bool{}
				for _, f := range fn.Type.Params.List {
					if isErrorTypeExpr(f.Type) {
						for _, n := range f.Names {
							errParams[n.Name] = true
						}
					}
				}
				var inputs []string
				if len(chain) == 1 {
					inputs = fieldNames(chain[0].Type.Params)
				}
				issues = chainIssues(rs, fn, body, stages, inputs, errParams)
			}
			counts[p]++
			if reportIssues(c, rs, "R13", "", issues) {
				c.Rep.pass("R13")
				if counts[p] <= 2 {
					c.Rep.sample(map[string]interface{}{"plugin": p, "path": rs.Run.shapeKey(), "residual": rs.Run.Text})
				}
			}
		}
		if counts[p] == 0 {
			c.Rep.fail(Finding{Rule: "R13", Key: "R13|" + p + "|vacuity", Kind: "undecided", Plugin: p, Msg: p + ": no error-form residual analysed"})
		}
	}
	g9Zero(c)
	c.Rep.analysed("error_form_residuals", counts["compose"]+counts["fmap"]+counts["join"]+counts["traverse"]+counts["toerror"])
	c.Rep.floor("R13", 20)
	_ = strings.TrimSpace
}
