#!/bin/bash
# runs every registered check once (tier $1, default quick) and validates the evidence files; for my own use.
tier=${1:-quick}
cd /verif
rc=0
for p in $(./gdv list); do
  out=$(./gdv check $p $tier 2>&1); c=$?
  echo "$out" | tail -1
  if [ $c -ne 0 ]; then rc=1; echo "$out" | grep "^VIOLATION:\|^UNDECIDED:\|key:" | head -10; fi
done
python3-vt - <<'PY'
import json,jsonschema,glob
es=json.load(open('/root/.vp/EVIDENCE.schema.json'))
for f in sorted(glob.glob('/verif/evidence/C*.json')):
    jsonschema.validate(json.load(open(f)), es)
print("evidence files valid:", len(glob.glob('/verif/evidence/C*.json')))
PY
exit $rc
