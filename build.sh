#!/bin/sh
# builds /verif/bin/gdv offline from /verif/tool (module cache only).
here=$(cd "$(dirname "$0")" && pwd)
unset GOSUMDB GOTOOLCHAIN GOWORK
export GOFLAGS=-mod=mod GOPROXY=off GOWORK=off
mkdir -p "$here/bin" "$here/evidence"
cd "$here/tool" || exit 2
if go build -o "$here/bin/gdv" . ; then exit 0; fi
echo "gdv: default go failed, retrying with go1.26.8" >&2
PATH=/opt/veriftools/go1.26.8/bin:$PATH GOTOOLCHAIN=local go build -o "$here/bin/gdv" .
